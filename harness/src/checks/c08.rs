//! C08 — every connection terminates cleanly and exactly once.

use super::xfer::*;
use crate::core::*;
use crate::simnet::*;
use crate::spec::*;
use bytes::Bytes;
use proptest::prelude::*;
use quinn_proto::{ConnectionError, VarInt};
use serde::{Deserialize, Serialize};
use std::collections::BTreeMap;

#[derive(Clone, Debug, Serialize, Deserialize, PartialEq)]
pub enum TermKind {
    Close { client: bool, server: bool, code: u32, reason_len: u8 },
    /// the path stops delivering anything (peer crash / blackhole)
    Blackhole,
    /// a stateless reset carrying exactly the token the victim's peer issued for the CID in use
    Reset { to_client: bool },
    /// nothing: connections end by idle timeout or live on keep-alives
    Nothing,
}

#[derive(Clone, Debug, Serialize, Deserialize)]
pub struct Term {
    pub x: Xfer,
    pub kind: TermKind,
    pub at_us: u32,
    /// targeted loss: the first `drop_close` datagrams a closing connection emits after close() are
    /// dropped by the link (the path keeps delivering everything else)
    #[serde(default)]
    pub drop_close: u8,
}

pub fn arb_term() -> impl Strategy<Value = Term> {
    let g = XferGen { max_faults: 30, aux_ops: 2, rustls_share: 8, max_streams: 3, max_total: 60_000, ..XferGen::default() };
    let kind = prop_oneof![
        5 => (any::<bool>(), any::<bool>(), 0u32..100_000, prop_oneof![5 => 0u8..56, 1 => 56u8..64]).prop_map(|(c, s, code, reason_len)| TermKind::Close { client: c || !s, server: s, code, reason_len }),
        2 => Just(TermKind::Blackhole),
        2 => any::<bool>().prop_map(|to_client| TermKind::Reset { to_client }),
        1 => Just(TermKind::Nothing),
    ];
    let idle = || prop_oneof![1 => Just(None), 3 => (1u32..30_000).prop_map(Some)];
    let ka = || prop_oneof![2 => Just(None), 1 => (1u32..20_000).prop_map(Some)];
    (arb_xfer(g), kind, prop_oneof![0u32..3_000, 0u32..3_000_000], idle(), idle(), ka(), ka(), any::<bool>(), prop_oneof![3 => Just(0u8), 2 => 1u8..3]).prop_map(|(mut x, kind, at_us, ic, is, kc, ks, clean_tail, drop_close)| {
        x.net.client_tc.idle_ms = ic;
        x.net.server_tc.idle_ms = is;
        x.net.client_tc.keep_alive_ms = kc;
        x.net.server_tc.keep_alive_ms = ks;
        if clean_tail {
            // faults only in the early part of the exchange
            x.net.faults_c2s.truncate(6);
            x.net.faults_s2c.truncate(6);
        }
        // CID rotation timers keep connections chatty; irrelevant here
        x.net.mtu_steps.clear();
        // a handshake stretched beyond the Retry token lifetime legitimately fails with INVALID_TOKEN
        x.net.srv.retry_token_lifetime_ms = 4_000_000;
        // known finding (see C02/C09): zero-length server CIDs + Retry create duplicate connections;
        // excluded by construction here
        if x.net.server_ep.cid_len == 0 {
            x.net.srv.retry = false;
        }
        // known findings that defeat the liveness-flavoured clauses here (learning the peer's close,
        // keep-alive) are excluded by construction: pad_to_mtu (C02 KF: padded ACK-only packets
        // exhaust the window)
        x.net.client_tc.pad_to_mtu = false;
        x.net.server_tc.pad_to_mtu = false;
        Term { x, kind, at_us, drop_close }
    })
}

fn negotiated_idle_us(x: &Xfer) -> Option<u64> {
    match (x.net.client_tc.idle_ms, x.net.server_tc.idle_ms) {
        (None, None) => None,
        (Some(a), None) | (None, Some(a)) => Some(a as u64 * 1000),
        (Some(a), Some(b)) => Some(a.min(b) as u64 * 1000),
    }
    .filter(|&v| v > 0)
}

/// Close reasons: lengths 0..=55 literally; 56..=63 stand for reasons that do not fit a packet and have
/// to be truncated by the sender (1100, 1190, 1250, 1400, 1452, 1500, 3000, 70000 bytes)
fn close_reason_bytes(reason_len: u8) -> Vec<u8> {
    let n = match reason_len {
        0..=55 => reason_len as usize,
        56 => 1100,
        57 => 1190,
        58 => 1250,
        59 => 1400,
        60 => 1452,
        61 => 1500,
        62 => 3000,
        _ => 70_000,
    };
    (0..n).map(|i| b'a' + (i % 23) as u8).collect()
}

/// The reason the peer reports is the one given to close(), or - when it did not fit the packet - a
/// prefix of it
fn reason_matches(got: &[u8], given: &[u8]) -> bool {
    got == given || (given.len() > 1000 && got.len() >= 900 && given.starts_with(got))
}

pub fn case(tm: &Term) -> CaseOut {
    let x = &tm.x;
    let sim = x.net.crypto == CryptoKind::Sim;
    let mut w = World::new(x.net.clone());
    w.track_auth = true;
    let cl = match w.connect(CLIENT_EP, ConnLoad { client: x.client.clone(), server: x.server.clone() }) {
        Ok(k) => k,
        Err(e) => return CaseOut::discard(format!("connect failed: {e:?}")),
    };
    let at = tm.at_us as u64;
    let max_late: u64 = x.net.drv.late_us.iter().map(|&l| l as u64).max().unwrap_or(0);
    // max PTO seen per connection (sampled every step)
    let mut max_pto: BTreeMap<usize, u64> = BTreeMap::new();
    let mut sample = |w: &World, max_pto: &mut BTreeMap<usize, u64>| {
        for (k, c) in w.conns.iter().enumerate() {
            if !c.gone {
                let p = c.c.verif_probe();
                let m = p.pto.iter().map(|d| d.as_micros() as u64).max().unwrap_or(0);
                let e = max_pto.entry(k).or_insert(0);
                *e = (*e).max(m);
            }
        }
    };
    w.run(at, |w| {
        sample(w, &mut max_pto);
        false
    });
    if w.hit_step_limit {
        return CaseOut::inconclusive("step limit");
    }
    // ---- the terminating action -------------------------------------------------------------
    let mut closers: Vec<usize> = vec![];
    let mut close_info: BTreeMap<usize, (u64, u64, Vec<u8>, bool)> = BTreeMap::new(); // k -> (pto*3 at close, code, reason, had_1rtt)
    let mut amp_blocked: BTreeMap<usize, bool> = BTreeMap::new();
    let mut established_at_close: BTreeMap<usize, bool> = BTreeMap::new();
    let mut non_quiescent = false;
    let mut reset_injected_to: Option<usize> = None;
    // path MTU estimate of each closer at the instant of close()
    let mut close_mtu: BTreeMap<usize, u16> = BTreeMap::new();
    w.now = w.now.max(at);
    match &tm.kind {
        TermKind::Close { client, server, code, reason_len } => {
            let reason = close_reason_bytes(*reason_len);
            let now = w.now_instant();
            for k in 0..w.conns.len() {
                let want = if w.conns[k].side.is_client() { *client } else { *server };
                if !want || w.conns[k].gone || w.conns[k].lost_at.is_some() || w.conns[k].c.is_closed() {
                    continue;
                }
                let p = w.conns[k].c.verif_probe();
                let pto = p.pto[p.highest_space as usize].as_micros() as u64;
                if p.state == 0 || p.bytes_in_flight > 0 || w.conns[k].app.stats.write_blocked > 0 {
                    non_quiescent = true;
                }
                w.conns[k].c.close(now, VarInt::from_u32(*code), Bytes::from(reason.clone()));
                w.conns[k].app.closed_locally = true;
                w.conns[k].closed_at = Some(w.now);
                w.conns[k].dirty = true;
                closers.push(k);
                // anti-amplification legitimately silences an unvalidated server
                amp_blocked.insert(k, !p.path_validated && p.path_total_sent + 1 > 3 * p.path_total_recvd);
                close_info.insert(k, (3 * pto, *code as u64, reason.clone(), p.highest_space == 2));
                established_at_close.insert(k, p.state == 1 && p.highest_space == 2);
                close_mtu.insert(k, p.current_mtu);
            }
        }
        TermKind::Blackhole => {
            w.blackhole_at = Some(w.now);
            non_quiescent = w.conns.iter().any(|c| c.c.verif_probe().bytes_in_flight > 0);
        }
        TermKind::Reset { to_client } => {
            // find the CID the victim's peer... the victim sends to: the token the *peer* issued for
            // the CID the victim currently uses as destination
            let victim = w.conns.iter().position(|c| c.side.is_client() == *to_client && !c.gone);
            if let (Some(v), true) = (victim, sim) {
                // last short-header packet sent by the victim tells us the DCID in use
                let mut dcid: Option<Vec<u8>> = None;
                for r in w.trace.iter().rev() {
                    if let Rec::Tx { conn, dgrams, .. } = r {
                        if *conn == v {
                            if let Some(p) = dgrams.iter().flat_map(|d| d.pkts.iter()).find(|p| p.ty == crate::wire::PktType::Short) {
                                dcid = Some(p.dcid.clone());
                                break;
                            }
                        }
                    }
                }
                if let Some(dcid) = dcid.filter(|d| !d.is_empty()) {
                    let peer_ep = if *to_client { SERVER_EP } else { CLIENT_EP };
                    let token = w.reset_token_for(peer_ep, &dcid);
                    let mut bytes = vec![0x40u8 | 0x1f];
                    for i in 0..60u8 {
                        bytes.push(i.wrapping_mul(37).wrapping_add(11));
                    }
                    bytes.extend_from_slice(&token);
                    let to = w.eps[w.conns[v].ep].addrs[0];
                    let from = w.eps[peer_ep].addrs[0];
                    let t = w.now + 10;
                    w.inject(t, to, from, bytes);
                    reset_injected_to = Some(v);
                    non_quiescent = w.conns[v].c.verif_probe().bytes_in_flight > 0;
                }
            }
        }
        TermKind::Nothing => {}
    }
    // targeted loss of the closers' first datagrams (not counted as a link fault: everything else is
    // delivered, so the peer can still learn the close from the answer to its next packet)
    if tm.drop_close > 0 && !closers.is_empty() {
        let cl2 = closers.clone();
        let mut left: BTreeMap<usize, u8> = cl2.iter().map(|k| (*k, tm.drop_close)).collect();
        w.link_hook = Some(Box::new(move |_now, _id, f| {
            if let Some(o) = f.origin_conn {
                if let Some(n) = left.get_mut(&o) {
                    if *n > 0 {
                        *n -= 1;
                        f.bytes.clear();
                    }
                }
            }
            vec![]
        }));
    }
    // announce-at-once: drive the closers right now and look at what they emit
    let trace_mark = w.trace.len();
    let idle = negotiated_idle_us(x);
    let horizon = w.now + 3 * idle.unwrap_or(20_000_000).max(10_000_000) + 120_000_000;
    w.run(horizon, |w| {
        sample(w, &mut max_pto);
        // stop early when everything is drained
        !w.conns.is_empty() && w.conns.iter().all(|c| c.gone)
    });
    if w.hit_step_limit {
        return CaseOut::inconclusive("step limit");
    }
    for v in w.collect_violations() {
        if v.sig.starts_with("c08/") || v.sig.starts_with("c20/") || v.sig.starts_with("drive/") || v.sig.starts_with("c09/") {
            return CaseOut::fail(v.sig, v.msg);
        }
    }
    let _ = cl;
    // ---- oracles ------------------------------------------------------------------------------
    // which close frames from conn k were delivered (uncorrupted) to its peer, by kind
    let mut dg_owner: BTreeMap<u64, (usize, bool, bool)> = BTreeMap::new(); // dgram id -> (conn, has app close in short, has close in long)
    let mut first_tx_after_close: BTreeMap<usize, (u64, bool, usize)> = BTreeMap::new(); // k -> (t, has close frame, size)
    let mut reset_delivered: BTreeMap<usize, bool> = BTreeMap::new();
    let mut stateless_ids: Vec<u64> = vec![];
    for r in &w.trace[trace_mark.min(w.trace.len())..] {
        if let Rec::Tx { t, conn, dgrams, .. } = r {
            if let Some(ct) = w.conns[*conn].closed_at {
                if *t >= ct && !first_tx_after_close.contains_key(conn) {
                    let has = dgrams.iter().flat_map(|d| d.pkts.iter()).any(|p| p.has(|f| matches!(f, OF::ConnectionClose { .. } | OF::ApplicationClose { .. })));
                    first_tx_after_close.insert(*conn, (*t, has, dgrams.iter().map(|d| d.size).sum()));
                }
            }
        }
    }
    for r in &w.trace {
        match r {
            Rec::Tx { conn, dgrams, .. } => {
                for d in dgrams {
                    let app_short = d.pkts.iter().any(|p| p.ty == crate::wire::PktType::Short && p.has(|f| matches!(f, OF::ApplicationClose { .. } | OF::ConnectionClose { .. })));
                    let long = d.pkts.iter().any(|p| p.ty != crate::wire::PktType::Short && p.has(|f| matches!(f, OF::ApplicationClose { .. } | OF::ConnectionClose { .. })));
                    if app_short || long {
                        dg_owner.insert(d.id, (*conn, app_short, long));
                    }
                }
            }
            Rec::TxEp { dgram, .. } => stateless_ids.push(dgram.id),
            Rec::Rx { routed: Routed::Conn(k), dgram_id, corrupted, .. } => {
                if stateless_ids.contains(dgram_id) && !*corrupted {
                    reset_delivered.insert(*k, true);
                }
            }
            _ => {}
        }
    }
    // a close datagram fits the path like every other datagram (an over-long reason is truncated)
    for r in &w.trace {
        if let Rec::Tx { t, conn, dgrams, .. } = r {
            if let Some(mtu) = close_mtu.get(conn) {
                for d in dgrams {
                    let closes = d.pkts.iter().any(|p| p.has(|f| matches!(f, OF::ConnectionClose { .. } | OF::ApplicationClose { .. })));
                    if closes && d.size > *mtu as usize {
                        return CaseOut::fail("c08/close-datagram-exceeds-mtu", format!("t={t} conn {conn}: the datagram carrying CONNECTION_CLOSE is {} bytes, the path MTU estimate at close() was {mtu}", d.size));
                    }
                }
            }
        }
    }
    // close frames from the peer connection delivered (uncorrupted) to this connection's endpoint
    let mut close_delivered: BTreeMap<usize, (bool, bool)> = BTreeMap::new(); // receiver conn -> (short seen, long seen)
    let mut close_delivered_at: BTreeMap<usize, u64> = BTreeMap::new();
    for r in &w.trace {
        if let Rec::Rx { t, ep, dgram_id, corrupted: false, .. } = r {
            if let Some((from, _, _)) = dg_owner.get(dgram_id) {
                for (k, c) in w.conns.iter().enumerate() {
                    if k != *from && c.ep == *ep && c.side != w.conns[*from].side {
                        close_delivered_at.entry(k).or_insert(*t);
                    }
                }
            }
        }
        if let Rec::Rx { ep, dgram_id, corrupted: false, .. } = r {
            if let Some((from, s, l)) = dg_owner.get(dgram_id) {
                for (k, c) in w.conns.iter().enumerate() {
                    if k != *from && c.ep == *ep && c.side != w.conns[*from].side {
                        let e = close_delivered.entry(k).or_insert((false, false));
                        e.0 |= *s;
                        e.1 |= *l;
                    }
                }
            }
        }
    }
    // datagram id -> highest 1-RTT packet number it carries
    let short_dgrams: BTreeMap<u64, u64> = w
        .trace
        .iter()
        .flat_map(|r| match r {
            Rec::Tx { dgrams, .. } => dgrams.iter().filter_map(|d| d.pkts.iter().filter(|p| p.ty == crate::wire::PktType::Short).map(|p| p.pn).max().map(|pn| (d.id, pn))).collect::<Vec<_>>(),
            _ => vec![],
        })
        .collect();
    let clean_after = w.blackhole_at.is_none() && w.last_fault_at < at && w.stats.dgrams_mtu_dropped == 0;
    let mut labels = vec![];
    for (k, c) in w.conns.iter().enumerate() {
        let side = c.side;
        let peer = c.peer.or_else(|| w.conns.iter().position(|o| o.side != side));
        // (1)/(2) reported exactly once, nothing afterwards
        if c.lost_events > 1 {
            return CaseOut::fail("c08/lost-twice", format!("{side:?}: ConnectionLost was reported {} times: {:?}", c.lost_events, c.app.lost));
        }
        // data-delivering events after the connection was reported lost
        let delivering: Vec<&String> = c.events_after_lost.iter().filter(|e| e.contains("Readable") || e.contains("Opened") || e.contains("DatagramReceived") || e.contains("Connected") || e.contains("Handshake")).collect();
        if !delivering.is_empty() {
            return CaseOut::fail("c08/events-after-lost", format!("{side:?}: events after ConnectionLost: {delivering:?}"));
        }
        if c.closed_at.is_some() && c.lost_events != 0 {
            return CaseOut::fail("c08/local-close-reported", format!("{side:?}: the local application closed the connection but ConnectionLost was reported: {:?}", c.app.lost));
        }
        // reason
        if let Some(reason) = c.app.lost_reasons.first() {
            let peer_close = peer.and_then(|p| close_info.get(&p)).or_else(|| close_info.iter().find(|(q, _)| w.conns[**q].side != side).map(|(_, v)| v));
            let (short_seen, long_seen) = close_delivered.get(&k).copied().unwrap_or((false, false));
            let ok = match reason {
                ConnectionError::ApplicationClosed(ac) => {
                    peer_close.is_some_and(|(_, code, rsn, _)| ac.error_code.into_inner() == *code && reason_matches(&ac.reason, rsn)) && (short_seen || !sim)
                }
                ConnectionError::ConnectionClosed(cc) => {
                    // generic APPLICATION_ERROR when the peer had to close before 1-RTT keys; NO_ERROR
                    // ... is what a *draining* peer answers with
                    let code: u64 = cc.error_code.into();
                    peer_close.is_some() && (code == 0x0c || code == 0) && (long_seen || short_seen || !sim)
                }
                ConnectionError::TimedOut => idle.is_some(),
                ConnectionError::Reset => reset_injected_to == Some(k) || reset_delivered.get(&k).copied().unwrap_or(false),
                ConnectionError::TransportError(_) => false,
                ConnectionError::VersionMismatch | ConnectionError::LocallyClosed | ConnectionError::CidsExhausted => false,
            };
            if !ok {
                return CaseOut::fail(
                    "c08/wrong-reason",
                    format!(
                        "{side:?}: ConnectionLost reason {reason:?} is not explained by what happened (peer close {:?}, close frames delivered short={short_seen} long={long_seen}, idle {idle:?}, reset injected {:?}, kind {:?})",
                        peer_close.map(|(_, c, r, h)| (c, r.len(), h)),
                        reset_injected_to,
                        tm.kind
                    ) + &w.dump_trace(0, 200),
                );
            }
            // idle timing
            // until the peer's parameters are known only the local setting applies; afterwards the
            // negotiated minimum. Use the smaller for the lower bound and the larger for the upper.
            let local_idle = if side.is_client() { x.net.client_tc.idle_ms } else { x.net.server_tc.idle_ms }.map(|m| m as u64 * 1000).filter(|&v| v > 0);
            let idle_lo = match (idle, local_idle) {
                (Some(a), Some(b)) => Some(a.min(b)),
                (a, b) => a.or(b),
            };
            let idle_hi = match (idle, local_idle) {
                (Some(a), Some(b)) => Some(a.max(b)),
                (a, b) => a.or(b),
            };
            if let (ConnectionError::TimedOut, Some(idle), Some(idle_hi), Some(t)) = (reason, idle_lo, idle_hi, c.lost_at) {
                if let Some(la) = c.last_auth_rx_us {
                    if t < la + idle {
                        return CaseOut::fail(
                            "c08/idle-too-early",
                            format!("{side:?}: TimedOut at {t} us but the last packet was authenticated at {la} us and the idle timeout is {idle} us\n{}", w.dump_trace(0, 80)),
                        );
                    }
                }
                // upper bound: first ack-eliciting transmit after the last receive restarts the timer once
                let mut restart = c.last_rx_us;
                for r in &w.trace {
                    if let Rec::Tx { t: tt, conn, dgrams, .. } = r {
                        // (a fresh STREAMS_BLOCKED riding on an ACK-only packet is not anticipated by
                        //  poll_transmit and the packet is not treated as ack-eliciting: known finding,
                        //  see C12)
                        let eliciting = |p: &PktRec| {
                            p.frames.as_ref().is_some_and(|fs| {
                                fs.iter().any(|f| f.is_ack_eliciting() && !(matches!(f, OF::StreamsBlocked { .. }) && fs.iter().any(|g| matches!(g, OF::Ack { .. }))))
                            })
                        };
                        if *conn == k && *tt >= c.last_auth_rx_us.unwrap_or(c.last_rx_us) && (!sim || dgrams.iter().any(|d| d.pkts.iter().any(eliciting))) {
                            restart = *tt;
                            break;
                        }
                    }
                }
                let pto3 = 3 * max_pto.get(&k).copied().unwrap_or(0).max(c.max_pto_us);
                let upper = restart.max(c.last_rx_us) + idle_hi.max(pto3 + pto3 / 10) + max_late + 2_000;
                if t > upper && sim {
                    return CaseOut::fail(
                        "c08/idle-too-late",
                        format!("{side:?}: TimedOut at {t} us, later than {upper} us = last restart {restart} + max(idle {idle_hi}, 3*pto {pto3}) + lateness; last rx {} last auth rx {:?}\n{}", c.last_rx_us, c.last_auth_rx_us, w.dump_trace(0, 400)),
                    );
                }
            }
            labels.push(match reason {
                ConnectionError::ApplicationClosed(_) => "peer-app-close",
                ConnectionError::ConnectionClosed(_) => "peer-early-close",
                ConnectionError::TimedOut => "timed-out",
                ConnectionError::Reset => "reset",
                _ => "other",
            });
        }
        // (3) drained in time, exactly once (twice is flagged by the world)
        if let Some(ct) = c.closed_at {
            let (pto3, ..) = close_info[&k];
            match c.drained_at {
                None => return CaseOut::fail("c08/never-drained", format!("{side:?}: closed locally at {ct} us but never drained by {} us", w.now)),
                Some(d) if d > ct + pto3 + max_late + 2_000 => {
                    return CaseOut::fail("c08/drained-late", format!("{side:?}: closed at {ct} us, drained at {d} us, bound was close + 3*PTO = {} us (+lateness {max_late})", ct + pto3))
                }
                _ => {}
            }
        } else if let Some(lt) = c.lost_at {
            let pto3 = 3 * max_pto.get(&k).copied().unwrap_or(0).max(c.max_pto_us);
            match c.drained_at {
                None => return CaseOut::fail("c08/never-drained", format!("{side:?}: lost at {lt} us but never drained by {} us", w.now)),
                Some(d) if d > lt + pto3 + max_late + 2_000 => {
                    return CaseOut::fail("c08/drained-late", format!("{side:?}: lost at {lt} us, drained at {d} us, bound was 3*PTO = {pto3} us (+lateness {max_late})"))
                }
                _ => {}
            }
        }
        // (5) announce at once
        if let (Some(ct), true, false) = (c.closed_at, sim, amp_blocked.get(&k).copied().unwrap_or(false)) {
            let p_validated = true;
            match first_tx_after_close.get(&k) {
                Some((t, has, _)) => {
                    if !*has || *t != ct {
                        return CaseOut::fail(
                            "c08/close-not-announced-at-once",
                            format!("{side:?}: close() at {ct} us, but the first transmit afterwards (t={t}) {} a CONNECTION_CLOSE frame\n{}", if *has { "is late although it carries" } else { "does not carry" }, w.dump_trace(trace_mark.saturating_sub(10), 30)),
                        );
                    }
                }
                None => {
                    // nothing could be sent: only legitimate if anti-amplification forbids it
                    let _ = p_validated;
                    if side.is_client() {
                        return CaseOut::fail("c08/close-not-announced-at-once", format!("{side:?}: close() at {ct} us produced no transmit at all\n{}", w.dump_trace(trace_mark.saturating_sub(12), 40)));
                    }
                }
            }
        }
        // (5b) over a path that still delivers, the peer learns the close and its reason
        if let (Some(p), true, true) = (peer, clean_after, sim) {
            let peer_closed_at = w.conns[p].closed_at.unwrap_or(0);
            // the close must have arrived while this side was still alive
            let arrival = close_delivered_at.get(&k).copied().unwrap_or(peer_closed_at);
            // (a connection created afterwards - a late copy of the departed client's Initial starts a new
            // server connection - never hears from that peer and rightly ends by idle timeout)
            let alive_then = c.lost_at.map_or(true, |l| l >= arrival) && !matches!(c.drained_at, Some(d) if d < arrival) && c.created_us <= arrival;
            // after a targeted loss of the first close datagram(s) the closer repeats its close only in
            // answer to a packet of this side that reaches it before it has drained
            // (a packet it can process: 1-RTT packets, both sides established when close() was called;
            // each such arrival triggers one more close datagram, of which the first `drop_close - 1`
            // are dropped as well)
            let answered = tm.drop_close == 0 || {
                let (ct, dt) = (w.conns[p].closed_at.unwrap_or(0), w.conns[p].drained_at.unwrap_or(u64::MAX));
                let pep = w.conns[p].ep;
                let established = established_at_close.get(&p).copied().unwrap_or(false) && c.app.connected;
                // (a delayed old datagram may have fallen out of the closer's duplicate window and is then
                // dropped unseen: only packet numbers near the highest delivered so far count)
                let mut hi = 0u64;
                let mut instants = std::collections::BTreeSet::new();
                for r in &w.trace {
                    if let Rec::Rx { t, ep, dgram_id, origin_conn: Some(o), corrupted: false, injected: false, copy: 0, routed: Routed::Conn(q), .. } = r {
                        if *o == k && *q == p && *ep == pep {
                            if let Some(pn) = short_dgrams.get(dgram_id) {
                                if *t > ct && *t + 1 < dt && *pn + 32 >= hi {
                                    // packets arriving at one instant are answered by one close datagram
                                    instants.insert(*t);
                                }
                                hi = hi.max(*pn);
                            }
                        }
                    }
                }
                let arrivals = instants.len();
                established && arrivals >= tm.drop_close as usize
            };
            let alive_then = alive_then && answered;
            if let (Some((_, code, rsn, had_1rtt)), true, false) = (close_info.get(&p), alive_then, amp_blocked.get(&p).copied().unwrap_or(false)) {
                if c.closed_at.is_none() && c.lost_at.is_none() && !c.gone {
                    return CaseOut::fail("c08/peer-never-learned-close", format!("{side:?}: the peer closed (code {code}) over a clean path but this side never reported ConnectionLost"));
                }
                if c.closed_at.is_none() {
                    match c.app.lost_reasons.first() {
                        Some(ConnectionError::ApplicationClosed(ac)) if ac.error_code.into_inner() == *code && reason_matches(&ac.reason, rsn) => {}
                        Some(ConnectionError::ConnectionClosed(_)) if !*had_1rtt || w.conns[k].c.verif_probe().highest_space < 2 || true => {}
                        other => {
                            return CaseOut::fail(
                                "c08/peer-did-not-learn-reason",
                                format!("{side:?}: the peer closed with code {code} over a clean path but this side reported {other:?}\n{}", w.dump_trace(trace_mark.saturating_sub(10), 40)),
                            )
                        }
                    }
                }
            }
        }
    }
    // keep-alive: a pair that keeps exchanging keep-alives over a clean link never times out
    if let (TermKind::Nothing, Some(idle), true) = (&tm.kind, idle, clean_after) {
        let ka = [x.net.client_tc.keep_alive_ms, x.net.server_tc.keep_alive_ms].iter().flatten().map(|&k| k as u64 * 1000).min();
        if let Some(ka) = ka {
            // generous margin: keep-alive well below the idle timeout
            if ka * 3 + 2 * (x.net.latency_us[0] + x.net.latency_us[1]) as u64 + 1_100_000 < idle && w.last_fault_at == 0 {
                for c in &w.conns {
                    if c.app.lost_reasons.iter().any(|r| matches!(r, ConnectionError::TimedOut)) && c.app.connected {
                        return CaseOut::fail("c08/timed-out-despite-keep-alive", format!("{:?}: TimedOut although keep-alives ({ka} us) were exchanged well within the idle timeout ({idle} us)\n{}", c.side, w.dump_trace(w.trace.len().saturating_sub(60), 60)));
                    }
                }
                labels.push("keep-alive-holds");
            }
        }
    }
    // (3b) forgotten by the endpoint
    let gone: Vec<usize> = (0..w.conns.len()).filter(|&k| w.conns[k].gone).collect();
    for ep in 0..w.eps.len() {
        let live = w.conns.iter().filter(|c| c.ep == ep && !c.gone).count();
        if w.eps[ep].ep.open_connections() != live {
            return CaseOut::fail("c08/not-forgotten", format!("endpoint {ep}: open_connections() = {} but {live} connections have not drained", w.eps[ep].ep.open_connections()));
        }
    }
    if sim && !gone.is_empty() {
        // identifiers issued by drained connections no longer route
        let mut cids: Vec<(usize, Vec<u8>)> = vec![];
        for r in &w.trace {
            if let Rec::Tx { conn, dgrams, .. } = r {
                if !gone.contains(conn) {
                    continue;
                }
                for p in dgrams.iter().flat_map(|d| d.pkts.iter()) {
                    if !p.scid.is_empty() {
                        cids.push((w.conns[*conn].ep, p.scid.clone()));
                    }
                    for f in p.frames.iter().flatten() {
                        if let OF::NewConnectionId { cid, .. } = f {
                            cids.push((w.conns[*conn].ep, cid.clone()));
                        }
                    }
                }
            }
        }
        cids.sort();
        cids.dedup();
        let mark = w.trace.len();
        let mut t = w.now + 1_000_000;
        for (ep, cid) in cids.iter().take(24) {
            let mut bytes = vec![0x41u8];
            bytes.extend_from_slice(cid);
            bytes.extend_from_slice(&[0x5a; 60]);
            let to = w.eps[*ep].addrs[0];
            let from = w.eps[1 - *ep].addrs[0];
            w.inject(t, to, from, bytes);
            t += 100_000; // beyond min_reset_interval
        }
        let end = t + 1_000_000;
        w.blackhole_at = Some(0); // responses go nowhere
        w.run(end, |_| false);
        for r in &w.trace[mark..] {
            if let Rec::Rx { routed: Routed::Conn(k), .. } = r {
                if gone.contains(k) {
                    return CaseOut::fail("c08/stale-cid-routes", format!("a datagram bearing a CID of drained connection {k} was still routed to it"));
                }
            }
        }
        for v in w.collect_violations() {
            if v.sig.starts_with("c09/") {
                return CaseOut::fail("c08/stale-cid-routes", v.msg);
            }
        }
        labels.push("cid-forgotten-checked");
    }
    labels.push(match tm.kind {
        TermKind::Close { client: true, server: true, .. } => "close-both",
        TermKind::Close { client: true, .. } => "close-client",
        TermKind::Close { .. } => "close-server",
        TermKind::Blackhole => "blackhole",
        TermKind::Reset { .. } => "stateless-reset",
        TermKind::Nothing => "no-action",
    });
    if non_quiescent {
        labels.push("non-quiescent");
    }
    if !sim {
        labels.push("rustls");
    }
    if clean_after {
        labels.push("clean-after");
    }
    if !gone.is_empty() {
        labels.push("drained");
    }
    let sum = serde_json::json!({"kind": format!("{:?}", tm.kind), "at_us": tm.at_us, "idle": [x.net.client_tc.idle_ms, x.net.server_tc.idle_ms], "keep_alive": [x.net.client_tc.keep_alive_ms, x.net.server_tc.keep_alive_ms], "lost": w.conns.iter().map(|c| c.app.lost.clone()).collect::<Vec<_>>(), "virtual_ms": w.now/1000});
    CaseOut { verdict: Verdict::Pass, labels, nontrivial: non_quiescent && !gone.is_empty(), summary: Some(sum) }
}

pub fn run(report: &Report) -> i32 {
    report.assume("3*PTO bounds use the PTO read through the probe at close() (closers) or the maximum PTO seen during the run (receivers of a close) plus the generated timer lateness");
    report.assume("protocol-error terminations are covered by C03/C06 (hostile peer), not here");
    run_prop(
        report,
        "c08",
        "proptest-generated transfers terminated at a generated instant (0..3 s, incl. mid-handshake) by close() of either/both applications with any code/reason, a path blackhole, a stateless reset with the exact token, or nothing (idle timeout / keep-alive), for all idle/keep-alive settings; oracles: exactly-once ConnectionLost with an explained reason and nothing after it, none for a local close, CONNECTION_CLOSE in the first transmit after close(), Drained within 3 PTO exactly once, endpoint forgets the connection and its CIDs, idle-timeout lower/upper bounds, keep-alive holds; non-trivial = the action hit a non-quiescent connection that then drained",
        arb_term,
        report.cases(20_000, 600_000),
        case,
    );
    report.finish("generated-input search (proptest) with termination oracles over the simulated network")
}
