//! C14 — validation tokens and Retry cannot be forged, moved or replayed.
//! (a) server acceptance / client Retry handling on simnet (module c14a, when present);
//! (c) token log and token cache model-based histories (module c14c).

use crate::core::*;

pub fn run(report: &Report) -> i32 {
    super::c14a::run_sub(report);
    super::c14c::run_sub(report);
    report.finish("generated-input search (proptest): token presentations against a binding model on the simulated network, plus model-based histories of the token log and token cache")
}
