//! C14b — client side of address validation:
//! (1) a client follows a Retry only if its integrity tag verifies and no other server packet has
//!     been processed, at most once per connection;
//! (2) it completes the handshake only if the server's transport parameters echo the connection
//!     IDs actually used (and the server checks the client's initial_source_connection_id);
//! (3) a client with a `TokenMemoryCache` uses every stored token in at most one connection.
//!
//! The observer is the link: the cleartext header of every Initial the client emits (destination
//! CID and token) is compared with what the model allows after the datagrams delivered so far.

use super::c14a::*;
use crate::core::*;
use crate::simcrypto::{SimClientConfig, SimServerConfig, Tamper, TpEdit, TpOp};
use crate::simnet::*;
use crate::spec::*;
use crate::wire;
use bytes::Bytes;
use proptest::prelude::*;
use quinn_proto::{TokenMemoryCache, TokenStore, TransportErrorCode};
use serde::{Deserialize, Serialize};
use serde_json::json;
use std::cell::RefCell;
use std::collections::{BTreeMap, BTreeSet};
use std::net::SocketAddr;
use std::rc::Rc;
use std::sync::atomic::{AtomicU64, Ordering};
use std::sync::{Arc, Mutex};

// ---------------------------------------------------------------------------------------------
// (1) Retry packets
// ---------------------------------------------------------------------------------------------

/// Change of exactly one field of a Retry packet (the integrity tag is left as it was)
#[derive(Clone, Debug, Serialize, Deserialize, PartialEq)]
pub enum RMut {
    TokenBit(u16),
    TagBit(u8),
    ScidBit(u16),
    DcidBit(u16),
    VersionBit(u8),
    /// one of the four unused low bits of the first byte
    FirstLowBit(u8),
    TruncToken(u8),
    ExtendToken { n: u8, byte: u8 },
}

#[derive(Clone, Debug, Serialize, Deserialize, PartialEq)]
pub enum OdcidSel {
    /// tag computed over the destination CID of the client's very first Initial
    Original,
    /// tag computed over the destination CID the client uses when the packet arrives
    Current,
}

#[derive(Clone, Debug, Serialize, Deserialize, PartialEq)]
pub enum SecondKind {
    /// byte-identical copy of the genuine Retry
    Replay,
    /// another Retry (new source CID, new token) with a valid integrity tag
    Valid { odcid: OdcidSel, token_len: u8 },
    Mutated(RMut),
}

#[derive(Clone, Debug, Serialize, Deserialize, PartialEq)]
pub enum Plan {
    /// genuine Retry untouched: must be followed exactly once, handshake completes
    Control,
    /// the genuine Retry is replaced by a copy with one field changed
    MutateInPlace(RMut),
    /// a copy with one field changed arrives first, the genuine one `lead_us` later
    ForgedFirst { m: RMut, lead_us: u32 },
    /// a second Retry arrives `delay_us` after the genuine one
    Second { kind: SecondKind, delay_us: u32 },
    /// the server does not use Retry; a validly tagged Retry arrives `delay_us` after the server's
    /// first flight. `split`: the link delivers only the first (Initial) packet of that coalesced
    /// datagram first, then the Retry, then the remaining packets - so the Retry arrives while the
    /// client is still in the handshake state with exactly one server packet processed
    Late { odcid: OdcidSel, delay_us: u32, token_len: u8, #[serde(default)] split: bool },
    /// the server does not use Retry; a validly tagged Retry arrives before the server's first flight
    /// (the client may follow it - nothing distinguishes it from a genuine one)
    EarlyForged { token_len: u8 },
}

#[derive(Clone, Debug, Serialize, Deserialize, PartialEq)]
pub struct RetryCase {
    pub seed: u64,
    pub crypto: CryptoKind,
    pub lat_us: [u32; 2],
    pub server_cid_len: u8,
    pub client_cid_len: u8,
    pub plan: Plan,
}

fn arb_rmut() -> impl Strategy<Value = RMut> {
    prop_oneof![
        4 => any::<u16>().prop_map(RMut::TokenBit),
        3 => (0u8..128).prop_map(RMut::TagBit),
        3 => any::<u16>().prop_map(RMut::ScidBit),
        2 => any::<u16>().prop_map(RMut::DcidBit),
        2 => (0u8..32).prop_map(RMut::VersionBit),
        1 => (0u8..4).prop_map(RMut::FirstLowBit),
        1 => any::<u8>().prop_map(RMut::TruncToken),
        1 => (0u8..8, any::<u8>()).prop_map(|(n, byte)| RMut::ExtendToken { n, byte }),
    ]
}

fn arb_odcid() -> impl Strategy<Value = OdcidSel> {
    prop_oneof![Just(OdcidSel::Original), Just(OdcidSel::Current)]
}

pub fn arb_retry_case() -> impl Strategy<Value = RetryCase> {
    let delay = prop_oneof![Just(0u32), 1u32..2_000, 2_000u32..60_000];
    let plan = prop_oneof![
        1 => Just(Plan::Control),
        6 => arb_rmut().prop_map(Plan::MutateInPlace),
        3 => (arb_rmut(), 0u32..5_000).prop_map(|(m, lead_us)| Plan::ForgedFirst { m, lead_us }),
        5 => (prop_oneof![
                1 => Just(SecondKind::Replay),
                4 => (arb_odcid(), 1u8..80).prop_map(|(odcid, token_len)| SecondKind::Valid { odcid, token_len }),
                1 => arb_rmut().prop_map(SecondKind::Mutated),
            ], delay.clone()).prop_map(|(kind, delay_us)| Plan::Second { kind, delay_us }),
        5 => (arb_odcid(), delay, 1u8..80, prop::bool::weighted(0.75)).prop_map(|(odcid, delay_us, token_len, split)| Plan::Late { odcid, delay_us, token_len, split }),
        1 => (1u8..80).prop_map(|token_len| Plan::EarlyForged { token_len }),
    ];
    (
        any::<u64>(),
        prop_oneof![4 => Just(CryptoKind::Sim), 1 => Just(CryptoKind::Rustls)],
        (500u32..20_000, 500u32..20_000),
        prop_oneof![3 => Just(8u8), 1 => 1u8..=20],
        prop_oneof![3 => Just(8u8), 1 => Just(0u8), 1 => 1u8..=20],
        plan,
    )
        .prop_map(|(seed, crypto, (a, b), server_cid_len, client_cid_len, plan)| RetryCase { seed, crypto, lat_us: [a, b], server_cid_len, client_cid_len, plan })
}

/// Apply a one-field change to a Retry packet. Returns false when the packet is left unchanged.
pub fn mutate_retry(d: &mut Vec<u8>, m: &RMut) -> bool {
    let Some(h) = parse_long(d) else { return false };
    if h.ty != wire::PktType::Retry {
        return false;
    }
    let before = d.clone();
    let dcid_off = 6;
    let scid_off = dcid_off + h.dcid.len() + 1;
    let tok_off = scid_off + h.scid.len();
    let tag_off = d.len() - 16;
    let flip = |d: &mut Vec<u8>, off: usize, len: usize, i: usize| {
        if len > 0 {
            let b = i % (8 * len);
            d[off + b / 8] ^= 1 << (b % 8);
        }
    };
    match m {
        RMut::TokenBit(i) => flip(d, tok_off, h.token.len(), *i as usize),
        RMut::TagBit(i) => flip(d, tag_off, 16, *i as usize),
        RMut::ScidBit(i) => {
            if h.scid.is_empty() {
                flip(d, tag_off, 16, *i as usize)
            } else {
                flip(d, scid_off, h.scid.len(), *i as usize)
            }
        }
        RMut::DcidBit(i) => {
            if h.dcid.is_empty() {
                flip(d, tag_off, 16, *i as usize)
            } else {
                flip(d, dcid_off, h.dcid.len(), *i as usize)
            }
        }
        RMut::VersionBit(i) => flip(d, 1, 4, *i as usize),
        RMut::FirstLowBit(i) => d[0] ^= 1 << (i % 4),
        RMut::TruncToken(n) => {
            if h.token.len() > 1 {
                let k = 1 + *n as usize % (h.token.len() - 1);
                d.drain(tag_off - k..tag_off);
            } else {
                flip(d, tag_off, 16, *n as usize)
            }
        }
        RMut::ExtendToken { n, byte } => {
            let ins = vec![*byte; *n as usize + 1];
            let tail = d.split_off(tag_off);
            d.extend_from_slice(&ins);
            d.extend_from_slice(&tail);
        }
    }
    *d != before
}

#[derive(Default)]
struct HookState {
    tap: Vec<TapRec>,
    /// bytes of datagrams the hook put on the link itself
    extra: BTreeMap<u64, Vec<u8>>,
    orig_dcid: Option<Vec<u8>>,
    client_scid: Option<Vec<u8>>,
    client_addr: Option<SocketAddr>,
    server_addr: Option<SocketAddr>,
    done_retry: bool,
    done_first_flight: bool,
    done_early: bool,
    what: Vec<String>,
}

fn pseudo_bytes(seed: u64, salt: u64, n: usize) -> Vec<u8> {
    let mut s = mix(seed, salt);
    (0..n)
        .map(|_| {
            s = mix(s, 0x9d);
            s as u8
        })
        .collect()
}

fn retry_world(c: &RetryCase) -> (World, Rc<RefCell<HookState>>) {
    let mut net = NetSpec::default();
    net.seed = c.seed;
    net.crypto = c.crypto.clone();
    net.latency_us = c.lat_us;
    net.server_ep.cid_len = c.server_cid_len.clamp(1, 20);
    net.client_ep.cid_len = c.client_cid_len.min(20);
    net.client_tc.mtud = None;
    net.server_tc.mtud = None;
    net.srv.retry = !matches!(c.plan, Plan::Late { .. } | Plan::EarlyForged { .. });
    let mut w = World::new(net);
    w.check_amp = false;
    let st: Rc<RefCell<HookState>> = Rc::new(RefCell::new(HookState::default()));
    let st2 = st.clone();
    let case = c.clone();
    let scl = c.server_cid_len.clamp(1, 20) as usize;
    w.link_hook = Some(Box::new(move |now, next_id, f| {
        let mut s = st2.borrow_mut();
        let mut extras: Vec<InFlight> = vec![];
        let first = parse_long(&f.bytes);
        if s.orig_dcid.is_none() {
            // very first datagram of the world: the client's first Initial
            if let Some(h) = &first {
                s.orig_dcid = Some(h.dcid.clone());
                s.client_scid = Some(h.scid.clone());
                s.client_addr = Some(f.from);
                s.server_addr = Some(f.to);
                if let (Plan::EarlyForged { token_len }, false) = (&case.plan, s.done_early) {
                    s.done_early = true;
                    let scid = pseudo_bytes(case.seed, 0xe1, scl);
                    let tok = pseudo_bytes(case.seed, 0xe2, *token_len as usize);
                    let pkt = build_retry(&case.crypto, &h.dcid, &h.scid, &scid, &tok, 0xf0);
                    let mut e = f.clone();
                    e.to = f.from;
                    e.from = f.to;
                    e.at = now + 1;
                    e.bytes = pkt.clone();
                    e.origin_conn = None;
                    s.extra.insert(next_id, pkt);
                    s.what.push("forged valid Retry ahead of the server's first flight".into());
                    extras.push(e);
                }
            }
        } else if Some(f.from) == s.server_addr {
            let is_retry = first.as_ref().is_some_and(|h| h.ty == wire::PktType::Retry);
            if is_retry && !s.done_retry {
                s.done_retry = true;
                let genuine = f.bytes.clone();
                let gh = first.clone().unwrap();
                let (odcid, cscid) = (s.orig_dcid.clone().unwrap(), s.client_scid.clone().unwrap());
                match &case.plan {
                    Plan::MutateInPlace(m) => {
                        if mutate_retry(&mut f.bytes, m) {
                            f.corrupted = true;
                            s.what.push(format!("genuine Retry rewritten: {m:?}"));
                        }
                    }
                    Plan::ForgedFirst { m, lead_us } => {
                        let mut e = f.clone();
                        if mutate_retry(&mut e.bytes, m) {
                            e.corrupted = true;
                            s.extra.insert(next_id, e.bytes.clone());
                            s.what.push(format!("copy with {m:?} delivered {lead_us} us ahead of the genuine Retry"));
                            extras.push(e);
                            f.at += *lead_us as u64 + 1;
                        }
                    }
                    Plan::Second { kind, delay_us } => {
                        let mut e = f.clone();
                        e.at = f.at + *delay_us as u64 + 1;
                        let ok = match kind {
                            SecondKind::Replay => true,
                            SecondKind::Valid { odcid: sel, token_len } => {
                                let o = match sel {
                                    OdcidSel::Original => odcid.clone(),
                                    OdcidSel::Current => gh.scid.clone(),
                                };
                                let scid = pseudo_bytes(case.seed, 0xe3, scl);
                                let tok = pseudo_bytes(case.seed, 0xe4, *token_len as usize);
                                e.bytes = build_retry(&case.crypto, &o, &cscid, &scid, &tok, 0xf0);
                                true
                            }
                            SecondKind::Mutated(m) => mutate_retry(&mut e.bytes, m),
                        };
                        if ok {
                            e.corrupted = e.bytes != genuine;
                            s.extra.insert(next_id, e.bytes.clone());
                            s.what.push(format!("second Retry {kind:?} {delay_us} us after the genuine one"));
                            extras.push(e);
                        }
                    }
                    _ => {}
                }
            } else if !is_retry && !s.done_first_flight {
                s.done_first_flight = true;
                if let (Plan::Late { odcid: sel, delay_us, token_len, split }, Some(h)) = (&case.plan, &first) {
                    let o = match sel {
                        OdcidSel::Original => s.orig_dcid.clone().unwrap(),
                        OdcidSel::Current => h.scid.clone(),
                    };
                    let scid = pseudo_bytes(case.seed, 0xe5, scl);
                    let tok = pseudo_bytes(case.seed, 0xe6, *token_len as usize);
                    let pkt = build_retry(&case.crypto, &o, &s.client_scid.clone().unwrap(), &scid, &tok, 0xf0);
                    let mut e = f.clone();
                    e.at = f.at + *delay_us as u64 + 1;
                    e.bytes = pkt.clone();
                    e.corrupted = true;
                    s.extra.insert(next_id, pkt);
                    s.what.push(format!("validly tagged Retry (tag over {sel:?} DCID) {delay_us} us after the server's first {}", if *split && h.len < f.bytes.len() { "Initial packet (rest of the coalesced datagram delivered after it)" } else { "flight" }));
                    extras.push(e);
                    if *split && h.ty == wire::PktType::Initial && h.len < f.bytes.len() {
                        let rest = f.bytes.split_off(h.len);
                        let mut r = f.clone();
                        r.at = f.at + *delay_us as u64 + 2;
                        r.bytes = rest.clone();
                        s.extra.insert(next_id + 1, rest);
                        extras.push(r);
                    }
                }
            }
        }
        s.tap.push(TapRec { t: now, id: f.dgram_id, from: f.from, to: f.to, bytes: f.bytes.clone(), conn: f.origin_conn });
        extras
    }));
    (w, st)
}

pub fn case_retry(c: &RetryCase) -> CaseOut {
    let (mut w, st) = retry_world(c);
    let k = match w.connect(CLIENT_EP, ConnLoad { client: SideLoad::default(), server: SideLoad::default() }) {
        Ok(k) => k,
        Err(e) => return CaseOut::inconclusive(format!("connect: {e:?}")),
    };
    let rtt = (c.lat_us[0] + c.lat_us[1]) as u64;
    w.run(12 * rtt + 400_000, |_| false);
    if w.hit_step_limit {
        return CaseOut::inconclusive("step limit");
    }
    if let Some(c) = world_violation(&mut w) {
        return c;
    }
    let s = st.borrow();
    let (Some(orig_dcid), Some(client_scid)) = (s.orig_dcid.clone(), s.client_scid.clone()) else {
        return CaseOut::inconclusive("no client Initial seen");
    };
    let bytes_of = |id: u64| -> Option<Vec<u8>> {
        if let Some(b) = s.extra.get(&id) {
            return Some(b.clone());
        }
        s.tap.iter().find(|r| r.id == id).map(|r| r.bytes.clone())
    };
    // ---- model
    #[derive(Debug, Clone)]
    struct Seen {
        token: Vec<u8>,
        scid: Vec<u8>,
        tag_ok: bool,
        first: bool,
        no_server_packet: bool,
        addressed: bool,
        genuine: bool,
    }
    impl Seen {
        fn acceptable(&self) -> bool {
            self.tag_ok && self.first && self.no_server_packet && self.addressed
        }
    }
    let mut retries: Vec<Seen> = vec![];
    let mut followed: Option<Seen> = None;
    let mut server_packet = false;
    // source CIDs of genuine server long-header packets delivered to the connection (the client
    // legitimately switches its destination CID to them)
    let mut server_scids: Vec<Vec<u8>> = vec![];
    let mut restarts = 0;
    for r in &w.trace {
        match r {
            Rec::Rx { ep, dgram_id, injected, corrupted, routed, .. } if *ep == CLIENT_EP => {
                let Some(b) = bytes_of(*dgram_id) else { continue };
                match parse_long(&b) {
                    Some(h) if h.ty == wire::PktType::Retry => {
                        let tag_ok = h.version == 1 && b.len() >= 16 && retry_tag_for(&c.crypto, &orig_dcid, &b[..b.len() - 16])[..] == h.tag[..];
                        retries.push(Seen {
                            token: h.token.clone(),
                            scid: h.scid.clone(),
                            tag_ok,
                            first: followed.is_none(),
                            no_server_packet: !server_packet,
                            addressed: h.dcid == client_scid && matches!(routed, Routed::Conn(_)),
                            genuine: !*injected && !*corrupted,
                        });
                    }
                    _ => {
                        // a genuine, unmodified server datagram that reached the connection
                        if !*injected && !*corrupted && matches!(routed, Routed::Conn(_)) {
                            server_packet = true;
                            for p in long_packets(&b) {
                                server_scids.push(p.scid);
                            }
                        }
                    }
                }
            }
            Rec::Tx { conn, dgrams, t, .. } if *conn == k => {
                for d in dgrams {
                    let Some(b) = bytes_of(d.id) else { continue };
                    for p in long_packets(&b) {
                        if p.ty != wire::PktType::Initial {
                            continue;
                        }
                        if p.token.is_empty() {
                            if let Some(x) = retries.iter().find(|x| x.scid == p.dcid && x.scid != orig_dcid && !server_scids.contains(&x.scid) && followed.as_ref().map_or(true, |f| f.scid != x.scid)) {
                                return CaseOut::fail(
                                    "c14/retry-dcid-switched",
                                    format!("t={t}: the client sends an Initial to the source CID {} of a Retry it must not have followed ({x:?}); plan {:?}", hex(&p.dcid), s.what),
                                );
                            }
                            continue;
                        }
                        match &followed {
                            Some(f) => {
                                if p.token != f.token || (p.dcid != f.scid && !server_scids.contains(&p.dcid)) {
                                    restarts += 1;
                                    return CaseOut::fail(
                                        "c14/retry-followed-second",
                                        format!("t={t}: after following one Retry (token {}.., SCID {}) the client sends an Initial with token {}.. to {}; plan {:?}", hex(&f.token[..f.token.len().min(8)]), hex(&f.scid), hex(&p.token[..p.token.len().min(8)]), hex(&p.dcid), s.what),
                                    );
                                }
                            }
                            None => {
                                // several delivered Retries may carry this token and source CID (a copy
                                // with another field changed): the client is in order if one of them
                                // was acceptable
                                let matching = || retries.iter().filter(|x| x.token == p.token && x.scid == p.dcid);
                                let Some(x) = matching().find(|x| x.acceptable()).or_else(|| matching().next()).cloned() else {
                                    return CaseOut::fail(
                                        "c14/retry-unknown-token",
                                        format!("t={t}: the client sends an Initial with token {}.. to {} which no delivered Retry carried; plan {:?}", hex(&p.token[..p.token.len().min(8)]), hex(&p.dcid), s.what),
                                    );
                                };
                                if !x.acceptable() {
                                    let sig = if !x.no_server_packet {
                                        "c14/retry-followed-after-server-packet"
                                    } else if !x.first {
                                        "c14/retry-followed-second"
                                    } else if !x.tag_ok {
                                        "c14/retry-followed-bad-tag"
                                    } else {
                                        "c14/retry-followed-not-addressed"
                                    };
                                    return CaseOut::fail(sig, format!("t={t}: the client followed a Retry it had to discard: {x:?}; plan {:?}", s.what));
                                }
                                restarts += 1;
                                followed = Some(x);
                            }
                        }
                    }
                }
            }
            _ => {}
        }
    }
    let connected = w.conns[k].app.connected;
    let mut labels: Vec<&'static str> = vec![];
    let mut nontrivial = false;
    match &c.plan {
        Plan::Control => {
            labels.push("control");
            if followed.is_none() || !connected {
                return CaseOut::fail(
                    "c14/genuine-retry-not-followed",
                    format!("untouched Retry: followed == {}, connected == {connected}, lost == {:?}", followed.is_some(), w.conns[k].app.lost),
                );
            }
        }
        Plan::MutateInPlace(_) => {
            labels.push("mutated-in-place");
            nontrivial = retries.first().is_some_and(|x| !x.genuine);
        }
        Plan::ForgedFirst { .. } => {
            labels.push("forged-first");
            nontrivial = retries.len() >= 2;
            // a Retry the client had to discard is without effect: the genuine one that arrives afterwards
            // is still the first acceptable one and must be followed
            // (unless the changed copy happens to be a Version Negotiation packet - version 0 -, which may
            // end the attempt of a client that has accepted no server packet yet)
            if followed.is_none() && retries.iter().any(|x| x.genuine && x.acceptable()) && w.conns[k].app.lost.is_empty() {
                return CaseOut::fail(
                    "c14/genuine-retry-after-forged-one-not-followed",
                    format!("a Retry that had to be discarded arrived first; the genuine Retry that followed was acceptable (valid tag, no server packet processed yet) but the client ignored it: {retries:?}; plan {:?}", s.what),
                );
            }
        }
        Plan::Second { kind, .. } => {
            labels.push("second-retry");
            if matches!(kind, SecondKind::Valid { .. }) {
                labels.push("second-retry-validly-tagged");
            }
            nontrivial = retries.len() >= 2 && followed.is_some();
            if followed.is_none() {
                return CaseOut::fail("c14/genuine-retry-not-followed", format!("the genuine first Retry was not followed; plan {:?}", s.what));
            }
        }
        Plan::Late { .. } => {
            labels.push("retry-after-server-packet");
            nontrivial = retries.iter().any(|x| x.tag_ok || !x.no_server_packet);
        }
        Plan::EarlyForged { .. } => {
            labels.push("forged-valid-retry-first");
            if followed.is_some() {
                labels.push("forged-valid-retry-followed");
            }
        }
    }
    if retries.iter().any(|x| x.tag_ok && !x.acceptable()) {
        labels.push("valid-tag-but-precondition-violated");
    }
    if connected {
        labels.push("connected");
    }
    if c.crypto == CryptoKind::Rustls {
        labels.push("rustls");
    }
    let _ = restarts;
    let summary = json!({"plan": s.what, "retries_delivered": retries.len(), "followed": followed.is_some(), "connected": connected, "crypto": format!("{:?}", c.crypto)});
    CaseOut { verdict: Verdict::Pass, labels, nontrivial, summary: Some(summary) }
}

// ---------------------------------------------------------------------------------------------
// (2) connection ID echo in the transport parameters
// ---------------------------------------------------------------------------------------------

pub const TP_ODCID: u64 = 0x00;
pub const TP_ISCID: u64 = 0x0f;
pub const TP_RSCID: u64 = 0x10;

#[derive(Clone, Debug, Serialize, Deserialize, PartialEq)]
pub struct TpCase {
    pub seed: u64,
    pub retry: bool,
    /// tamper with the client's parameters (checked by the server) instead of the server's
    pub client_side: bool,
    pub edit: Option<TpEdit>,
    pub lat_us: [u32; 2],
    /// 0 (only without Retry): the server uses zero-length connection IDs, so the parameter that echoes
    /// its source connection ID is present but empty
    pub server_cid_len: u8,
    #[serde(default = "eight")]
    pub client_cid_len: u8,
}
fn eight() -> u8 {
    8
}

pub fn arb_tp_case() -> impl Strategy<Value = TpCase> {
    let id = prop_oneof![Just(TP_ODCID), Just(TP_ISCID), Just(TP_RSCID)];
    let op = (id.clone(), any::<u8>(), 0u8..8, any::<u8>(), prop::collection::vec(any::<u8>(), 0..21)).prop_flat_map(|(other, byte, bit, b2, value)| {
        prop_oneof![
            5 => Just(TpOp::Flip { byte, bit }),
            3 => Just(TpOp::Drop),
            2 => Just(TpOp::CopyFrom { from: other }),
            2 => Just(TpOp::Swap { with: other }),
            2 => Just(TpOp::AddIfAbsent { value: value.clone() }),
            1 => Just(TpOp::Shorten),
            1 => Just(TpOp::Lengthen { byte: b2 }),
        ]
    });
    (any::<u64>(), any::<bool>(), prop::bool::weighted(0.25), prop::option::weighted(0.93, (id, op)), (500u32..20_000, 500u32..20_000), (prop_oneof![3 => Just(8u8), 1 => 4u8..=20, 1 => Just(0u8)], prop_oneof![4 => Just(8u8), 1 => Just(0u8)])).prop_map(
        |(seed, retry, client_side, edit, (a, b), (server_cid_len, client_cid_len))| {
            let edit = edit.map(|(id, op)| TpEdit { id: if client_side { TP_ISCID } else { id }, op });
            // a client may not send the two server-only parameters at all: only its own parameter is edited
            let edit = match edit {
                Some(TpEdit { op: TpOp::CopyFrom { .. } | TpOp::Swap { .. }, .. }) if client_side => Some(TpEdit { id: TP_ISCID, op: TpOp::Flip { byte: 0, bit: 0 } }),
                e => e,
            };
            TpCase { seed, retry, client_side, edit, lat_us: [a, b], server_cid_len, client_cid_len }
        },
    )
}

pub fn case_tp(c: &TpCase) -> CaseOut {
    let mut net = NetSpec::default();
    net.seed = c.seed;
    net.latency_us = c.lat_us;
    net.srv.retry = c.retry;
    net.server_ep.cid_len = if c.server_cid_len == 0 && !c.retry { 0 } else { c.server_cid_len.clamp(4, 20) };
    net.client_ep.cid_len = if c.client_cid_len == 0 { 0 } else { 8 };
    net.client_tc.mtud = None;
    net.server_tc.mtud = None;
    let mut w = World::new(net);
    w.check_amp = false;
    let applied = Arc::new(AtomicU64::new(0));
    let tamper = Tamper { tp_edits: c.edit.iter().cloned().collect(), applied: applied.clone(), ..Tamper::default() };
    if c.client_side {
        let mut scc = SimClientConfig::new();
        scc.use_tickets = false;
        scc.tamper = tamper;
        w.sim_client_cfg = Arc::new(scc);
    } else {
        let mut ssc = SimServerConfig::new();
        ssc.tamper = tamper;
        w.sim_server_cfg = Arc::new(ssc);
        w.reconfigure_server();
    }
    let k = match w.connect(CLIENT_EP, ConnLoad { client: SideLoad::default(), server: SideLoad::default() }) {
        Ok(k) => k,
        Err(e) => return CaseOut::inconclusive(format!("connect: {e:?}")),
    };
    let rtt = (c.lat_us[0] + c.lat_us[1]) as u64;
    w.run(12 * rtt + 300_000, |_| false);
    if w.hit_step_limit {
        return CaseOut::inconclusive("step limit");
    }
    if let Some(c) = world_violation(&mut w) {
        return c;
    }
    let altered = applied.load(Ordering::Relaxed) > 0;
    let cl = &w.conns[k];
    let server_connected = w.conns.iter().any(|x| x.side.is_server() && x.app.connected);
    let ok_code = |code: TransportErrorCode| code == TransportErrorCode::TRANSPORT_PARAMETER_ERROR || code == TransportErrorCode::PROTOCOL_VIOLATION;
    let mut labels: Vec<&'static str> = vec![];
    labels.push(if c.retry { "with-retry" } else { "without-retry" });
    labels.push(if c.client_side { "client-parameters" } else { "server-parameters" });
    if let Some(e) = &c.edit {
        labels.push(match e.id {
            TP_ODCID => "original_destination_connection_id",
            TP_ISCID => "initial_source_connection_id",
            _ => "retry_source_connection_id",
        });
        labels.push(match e.op {
            TpOp::Flip { .. } => "flip",
            TpOp::Drop => "drop",
            TpOp::CopyFrom { .. } => "copy-from-other",
            TpOp::Swap { .. } => "swap",
            TpOp::AddIfAbsent { .. } => "add",
            TpOp::Shorten => "shorten",
            TpOp::Lengthen { .. } => "lengthen",
        });
    }
    let describe = || format!("edit {:?} on the {} transport parameters, Retry used: {}", c.edit, if c.client_side { "client's" } else { "server's" }, c.retry);
    if !altered {
        labels.push("unaltered");
        if !cl.app.connected || !server_connected {
            return CaseOut::fail(
                "c14/handshake-failed",
                format!("unaltered transport parameters ({}): client connected == {}, server connected == {server_connected}, client lost == {:?}", describe(), cl.app.connected, cl.app.lost),
            );
        }
    } else if !c.client_side {
        if cl.app.connected {
            return CaseOut::fail("c14/cid-echo-not-checked", format!("the client reported Connected although the server's transport parameters do not echo the connection IDs used: {}", describe()));
        }
        let good = cl.app.lost_reasons.iter().any(|r| matches!(transport_code(r), Some((true, code)) if ok_code(code)));
        if !good {
            return CaseOut::fail(
                "c14/cid-echo-wrong-error",
                format!("{}: the client must close with TRANSPORT_PARAMETER_ERROR (or PROTOCOL_VIOLATION); lost == {:?}", describe(), cl.app.lost),
            );
        }
    } else {
        if server_connected || cl.app.connected {
            return CaseOut::fail(
                "c14/cid-echo-not-checked",
                format!("handshake completed (client {}, server {server_connected}) although the client's initial_source_connection_id does not match the CID it used: {}", cl.app.connected, describe()),
            );
        }
        // the server refuses; the client learns it through CONNECTION_CLOSE
        let good = cl.app.lost_reasons.iter().any(|r| matches!(transport_code(r), Some((false, code)) if ok_code(code)))
            || w.conns.iter().any(|x| x.side.is_server() && x.app.lost_reasons.iter().any(|r| matches!(transport_code(r), Some((true, code)) if ok_code(code))));
        if !good {
            return CaseOut::fail("c14/cid-echo-wrong-error", format!("{}: the server must refuse with TRANSPORT_PARAMETER_ERROR (or PROTOCOL_VIOLATION); client lost == {:?}", describe(), cl.app.lost));
        }
    }
    let summary = json!({"edit": format!("{:?}", c.edit), "client_side": c.client_side, "retry": c.retry, "altered": altered, "client_connected": cl.app.connected, "client_lost": cl.app.lost});
    CaseOut { verdict: Verdict::Pass, labels, nontrivial: altered, summary: Some(summary) }
}

// ---------------------------------------------------------------------------------------------
// (3) token cache at connection level
// ---------------------------------------------------------------------------------------------

#[derive(Clone, Debug, Serialize, Deserialize, PartialEq)]
pub struct CacheCase {
    pub seed: u64,
    pub crypto: CryptoKind,
    pub n_conns: u8,
    pub tokens_sent: u8,
    pub cap_names: u8,
    pub cap_tokens: u8,
    /// bit j: the server answers connection j's first Initial with Retry when it is not validated
    pub retry_mask: u16,
    /// bit j: connection j+1 is started together with connection j
    pub pair_mask: u16,
    pub lat_us: [u32; 2],
}

pub fn arb_cache_case() -> impl Strategy<Value = CacheCase> {
    (
        any::<u64>(),
        prop_oneof![5 => Just(CryptoKind::Sim), 1 => Just(CryptoKind::Rustls)],
        2u8..=9,
        prop_oneof![1 => Just(0u8), 4 => 1u8..=4],
        prop_oneof![1 => Just(0u8), 4 => 1u8..=3],
        prop_oneof![1 => Just(0u8), 3 => Just(1u8), 3 => Just(2u8), 2 => 3u8..=8],
        any::<u16>(),
        prop_oneof![2 => Just(0u16), 1 => any::<u16>()],
        (500u32..10_000, 500u32..10_000),
    )
        .prop_map(|(seed, crypto, n_conns, tokens_sent, cap_names, cap_tokens, retry_mask, pair_mask, (a, b))| CacheCase { seed, crypto, n_conns, tokens_sent, cap_names, cap_tokens, retry_mask, pair_mask, lat_us: [a, b] })
}

/// `TokenMemoryCache` behind a recorder
pub struct RecCache {
    pub inner: TokenMemoryCache,
    /// (is_insert, token)
    pub log: Mutex<Vec<(bool, Vec<u8>)>>,
}

impl TokenStore for RecCache {
    fn insert(&self, server_name: &str, token: Bytes) {
        self.log.lock().unwrap().push((true, token.to_vec()));
        self.inner.insert(server_name, token)
    }
    fn take(&self, server_name: &str) -> Option<Bytes> {
        let t = self.inner.take(server_name);
        if let Some(t) = &t {
            self.log.lock().unwrap().push((false, t.to_vec()));
        }
        t
    }
}

pub fn case_cache(c: &CacheCase) -> CaseOut {
    let sim = c.crypto == CryptoKind::Sim;
    let mut net = NetSpec::default();
    net.seed = c.seed;
    net.crypto = c.crypto.clone();
    net.latency_us = c.lat_us;
    net.srv.tokens_sent = c.tokens_sent;
    net.client_tc.mtud = None;
    net.server_tc.mtud = None;
    let mut w = World::new(net);
    w.check_amp = false;
    // fixed token key and an exact token log, so that NEW_TOKEN tokens stay usable across connections
    let key = token_key(!sim, c.seed);
    let log: Arc<dyn quinn_proto::TokenLog> = Arc::new(ExactLog::default());
    let sent = c.tokens_sent as u32;
    w.server_cfg_hook = Some(Rc::new(move |sc: &mut quinn_proto::ServerConfig| {
        sc.token_key(key.clone());
        let mut vt = quinn_proto::ValidationTokenConfig::default();
        vt.sent(sent);
        vt.log(log.clone());
        sc.validation_token_config(vt);
    }));
    w.reconfigure_server();
    let tap = install_tap(&mut w);
    let store = Arc::new(RecCache { inner: TokenMemoryCache::new(c.cap_names as u32, c.cap_tokens as usize), log: Mutex::new(vec![]) });
    w.client_token_store = Some(store.clone());
    let rtt = (c.lat_us[0] + c.lat_us[1]) as u64;
    let phase = 8 * rtt + 60_000;
    let mut conns: Vec<usize> = vec![];
    let mut j = 0;
    while j < c.n_conns as usize {
        let group = if c.pair_mask >> j & 1 == 1 && j + 1 < c.n_conns as usize { 2 } else { 1 };
        w.spec.srv.retry = c.retry_mask >> j & 1 == 1;
        for _ in 0..group {
            match w.connect(CLIENT_EP, ConnLoad { client: SideLoad::default(), server: SideLoad::default() }) {
                Ok(k) => conns.push(k),
                Err(e) => return CaseOut::inconclusive(format!("connect: {e:?}")),
            }
        }
        j += group;
        let until = w.now + phase;
        w.run(until, |_| false);
        if w.hit_step_limit {
            return CaseOut::inconclusive("step limit");
        }
        if let Some(c) = world_violation(&mut w) {
            return c;
        }
        if w.now < until {
            w.now = until;
            w.clock.0.store(until, Ordering::Relaxed);
        }
    }
    // ---- what the server issued
    let tap = tap.borrow();
    let ccl = w.spec.client_ep.cid_len as usize;
    let mut retry_tokens: BTreeSet<Vec<u8>> = BTreeSet::new();
    let mut new_tokens: BTreeSet<Vec<u8>> = BTreeSet::new();
    let server_addr = w.eps[SERVER_EP].addrs[0];
    for r in tap.iter().filter(|r| r.from == server_addr) {
        if let Some(h) = parse_long(&r.bytes) {
            if h.ty == wire::PktType::Retry {
                retry_tokens.insert(h.token);
                continue;
            }
        }
        if sim {
            for p in wire::decode_datagram(&r.bytes, ccl).into_iter().flatten() {
                if p.ty.space().is_none() {
                    continue;
                }
                for f in wire::decode_frames(&p.payload).unwrap_or_default() {
                    if let wire::Frame::NewToken { token } = f {
                        new_tokens.insert(token);
                    }
                }
            }
        }
    }
    let log = store.log.lock().unwrap().clone();
    if !sim {
        // frames are not observable: the tokens the client's store was given over authenticated connections
        new_tokens = log.iter().filter(|(ins, _)| *ins).map(|(_, t)| t.clone()).collect();
    }
    // ---- what each client connection put into its Initials
    let mut used_by: BTreeMap<Vec<u8>, BTreeSet<usize>> = BTreeMap::new();
    let mut first_token: BTreeMap<usize, Vec<u8>> = BTreeMap::new();
    for r in tap.iter().filter(|r| r.to == server_addr) {
        let Some(k) = r.conn else { continue };
        for p in long_packets(&r.bytes) {
            if p.ty != wire::PktType::Initial {
                continue;
            }
            first_token.entry(k).or_insert_with(|| p.token.clone());
            if p.token.is_empty() {
                continue;
            }
            if retry_tokens.contains(&p.token) {
                continue;
            }
            if !new_tokens.contains(&p.token) {
                return CaseOut::fail(
                    "c14/client-token-not-issued",
                    format!("client connection {k} sends an Initial with token {} which the server never issued to it (neither Retry nor NEW_TOKEN)", hex(&p.token)),
                );
            }
            used_by.entry(p.token.clone()).or_default().insert(k);
        }
    }
    for (t, ks) in &used_by {
        if ks.len() > 1 {
            return CaseOut::fail(
                "c14/client-token-reused",
                format!("NEW_TOKEN token {} appears in the Initials of {} connection attempts ({:?}); store capacity {} names x {} tokens, {} tokens per connection", hex(t), ks.len(), ks, c.cap_names, c.cap_tokens, c.tokens_sent),
            );
        }
    }
    // ---- positive control: a stored token is actually used
    let usable = c.cap_names >= 1 && c.cap_tokens >= 1 && c.tokens_sent >= 1;
    let mut with_token = 0;
    for (i, k) in conns.iter().enumerate() {
        let has = first_token.get(k).is_some_and(|t| !t.is_empty());
        if has {
            with_token += 1;
        }
        // connections started after the first phase ended find a token in the store, unless a
        // paired connection took the last one
        let alone = c.pair_mask == 0;
        if usable && alone && i >= 1 && w.conns[conns[i - 1]].app.connected && !has {
            return CaseOut::fail(
                "c14/stored-token-not-used",
                format!("connection #{i} carries no token in its first Initial although the store ({} names x {} tokens) received {} tokens from the previous connection", c.cap_names, c.cap_tokens, c.tokens_sent),
            );
        }
        if !usable && has {
            return CaseOut::fail("c14/client-token-not-issued", format!("connection #{i} presents a token although the store cannot hold any"));
        }
    }
    let connected = conns.iter().filter(|k| w.conns[**k].app.connected).count();
    if connected != conns.len() {
        return CaseOut::fail(
            "c14/handshake-failed",
            format!("{} of {} reconnects completed; lost: {:?}", connected, conns.len(), conns.iter().map(|k| w.conns[*k].app.lost.clone()).collect::<Vec<_>>()),
        );
    }
    let validated_by_token = w.incoming_log.iter().filter(|i| i.validated && i.may_retry).count();
    let mut labels: Vec<&'static str> = vec![];
    if with_token > 0 {
        labels.push("token-presented");
    }
    if validated_by_token > 0 {
        labels.push("validated-by-new-token");
    }
    if c.pair_mask != 0 {
        labels.push("overlapping-connections");
    }
    if !usable {
        labels.push("zero-capacity-or-no-tokens");
    }
    if !sim {
        labels.push("rustls");
    }
    if new_tokens.len() > (c.cap_tokens as usize) && usable {
        labels.push("store-evicted-tokens");
    }
    let summary = json!({"connections": conns.len(), "tokens_issued": new_tokens.len(), "connections_presenting_a_token": with_token, "incomings_validated_by_token": validated_by_token, "capacity": [c.cap_names, c.cap_tokens]});
    CaseOut { verdict: Verdict::Pass, labels, nontrivial: with_token >= 2, summary: Some(summary) }
}

pub const RULE_RETRY: &str = "proptest-generated single handshakes (SimCrypto / rustls, client CID length 0..20, server CID length 1..20) in which the link rewrites the genuine Retry (one bit of token, integrity tag, source CID, destination CID, version, unused first-byte bits; token truncated / extended), delivers such a copy ahead of the genuine one, delivers a second Retry after the first (exact replay, mutated copy, or a fresh one whose tag is valid over the original or the current DCID), or delivers a validly tagged Retry after the server's first flight; observer: every Initial the client emits must keep DCID and (empty) token unless a delivered Retry with a verifying tag (recomputed independently: RFC 9001 5.8 AES-128-GCM / SimCrypto) arrived before any other server packet and no Retry was followed before; at most one restart; untouched Retry => followed and connected; non-trivial = the offending Retry differs from an acceptable one in exactly one field or precondition";
pub const RULE_TP: &str = "proptest-generated SimCrypto handshakes with and without Retry in which the session layer alters exactly one of original_destination_connection_id / initial_source_connection_id / retry_source_connection_id in the server's transport parameters (bit flip, drop, value copied from / swapped with another CID parameter, retry_source_connection_id added without Retry, shortened, lengthened) or the client's initial_source_connection_id; oracle: altered => the peer never reports Connected and the connection ends with TRANSPORT_PARAMETER_ERROR (PROTOCOL_VIOLATION tolerated, RFC 9000 7.3); unaltered => both sides connect; non-trivial = the presented parameters differ from the genuine ones";
pub const RULE_CACHE: &str = "proptest-generated sequences of 2..9 (partly overlapping) connections of one client with a TokenMemoryCache (0..3 server names x 0..8 tokens) to a server issuing 0..4 NEW_TOKEN tokens per connection, Retry on some attempts (SimCrypto / rustls); observer: every non-empty token in a client Initial is a Retry token or a NEW_TOKEN token the server issued to this client, no NEW_TOKEN token appears in the Initials of two connection attempts, a stored token is used by the next connection, all reconnects complete; non-trivial = at least two connections presented stored tokens";

pub fn run_sub(report: &Report) {
    run_prop(report, "c14b-retry", RULE_RETRY, arb_retry_case, report.cases(100_000, 3_000_000), case_retry);
    run_prop(report, "c14b-tp", RULE_TP, arb_tp_case, report.cases(100_000, 3_000_000), case_tp);
    run_prop(report, "c14b-cache", RULE_CACHE, arb_cache_case, report.cases(20_000, 400_000), case_cache);
}
