//! C20 — the protocol core is deterministic and driven only by its inputs.
//!
//! Each generated history is run several times under replay transformations and the canonical
//! output traces are compared: R1 identical replay, R2 all instants shifted by a constant, R3
//! spurious handle_timeout / poll_transmit calls inserted. Convergence of repeated timeout service
//! at one instant and silence after Drained are asserted by the world itself in every run.

use super::xfer::*;
use crate::core::*;
use crate::simnet::*;
use crate::spec::*;
use proptest::prelude::*;
use serde::{Deserialize, Serialize};

#[derive(Clone, Debug, Serialize, Deserialize)]
pub struct Twin {
    pub x: Xfer,
    /// time shift for R2 (µs)
    pub shift_us: u64,
    /// spurious call period for R3
    pub spurious_every: u8,
}

fn canon(w: &World, reduced: bool) -> Vec<String> {
    let mut out = vec![];
    for r in &w.trace {
        match r {
            Rec::Tx { t, conn, dst, size, seg, ecn, dgrams, max_dgrams, .. } => {
                if reduced {
                    out.push(format!("tx t={t} c={conn} dst={dst} size={size} seg={seg:?}"));
                } else {
                    let h: Vec<u64> = dgrams.iter().map(|d| d.hash).collect();
                    out.push(format!("tx t={t} c={conn} dst={dst} size={size} seg={seg:?} ecn={ecn} maxd={max_dgrams} bytes={h:x?}"));
                }
            }
            Rec::TxEp { t, ep, dst, size, dgram, .. } => {
                if reduced {
                    out.push(format!("txep t={t} ep={ep} dst={dst} size={size}"));
                } else {
                    out.push(format!("txep t={t} ep={ep} dst={dst} size={size} bytes={:x}", dgram.hash));
                }
            }
            Rec::Rx { t, ep, from, size, routed, .. } => out.push(format!("rx t={t} ep={ep} from={from} size={size} routed={routed:?}")),
            Rec::Ev { t, conn, ev } => out.push(format!("ev t={t} c={conn} {ev}")),
            Rec::Timeout { spurious: true, .. } => {}
            Rec::Timeout { t, conn, deadline, .. } => out.push(format!("timeout t={t} c={conn} deadline={deadline}")),
            Rec::NextTimeout { t, conn, at } => out.push(format!("next t={t} c={conn} at={at:?}")),
            Rec::Drained { t, conn } => out.push(format!("drained t={t} c={conn}")),
            Rec::Lost { t, conn, reason } => out.push(format!("lost t={t} c={conn} {reason}")),
        }
    }
    out
}

fn first_diff(a: &[String], b: &[String]) -> String {
    for i in 0..a.len().max(b.len()) {
        let x = a.get(i);
        let y = b.get(i);
        if x != y {
            let lo = i.saturating_sub(3);
            let ctx: Vec<&String> = a[lo..i.min(a.len())].iter().collect();
            return format!("first difference at output #{i} (of {} / {}):\n  base:    {:?}\n  variant: {:?}\n  preceding outputs: {:#?}", a.len(), b.len(), x, y, ctx);
        }
    }
    "no difference".into()
}

fn run_once(x: &Xfer) -> (World, bool) {
    let r = run_xfer(x, 20_000_000, false);
    let completed = r.completed;
    let mut w = r.world;
    // keep the world alive for a while after the workload: periodic timers (connection ID rotation,
    // keep-alive, idle) belong to the outputs that must be reproducible and must converge
    if w.viol.is_empty() && !w.hit_step_limit {
        let until = w.now + 3_000_000;
        w.run(until, |_| false);
    }
    (w, completed)
}

pub fn case(tw: &Twin) -> CaseOut {
    let x = &tw.x;
    let exact = x.net.crypto == CryptoKind::Sim && x.net.client_ep.cid_kind == CidKind::Seeded && x.net.server_ep.cid_kind == CidKind::Seeded;
    let bbr = matches!(x.net.client_tc.cc, CcSpec::Bbr) || matches!(x.net.server_tc.cc, CcSpec::Bbr);
    let (w0, completed) = run_once(x);
    if w0.hit_step_limit {
        return CaseOut::inconclusive("step limit");
    }
    let mut w0 = w0;
    for v in w0.collect_violations() {
        if v.sig.starts_with("c20/") || v.sig.starts_with("drive/") {
            return CaseOut::fail(v.sig, v.msg);
        }
    }
    let base = canon(&w0, !exact);
    let mut labels = vec![];
    if x.net.crypto != CryptoKind::Sim {
        // TLS draws its own randomness (message sizes vary), which is not an input quinn controls:
        // only the in-world clauses (convergence, silence after Drained) are asserted here
        labels.push("rustls-in-world-only");
        return CaseOut { verdict: Verdict::Pass, labels, nontrivial: false, summary: None };
    }
    // R1 identical replay
    {
        let (mut w1, _) = run_once(x);
        let _ = w1.collect_violations();
        let t1 = canon(&w1, !exact);
        if t1 != base {
            let sig = if bbr { "c20/r1-replay-diverges/controller=Bbr" } else { "c20/r1-replay-diverges" };
            return CaseOut::fail(sig, format!("identical inputs produced different outputs\n{}", first_diff(&base, &t1)));
        }
        labels.push("r1");
    }
    // R2 time translation
    {
        let mut x2 = x.clone();
        x2.net.time_shift_us = tw.shift_us;
        let (mut w2, _) = run_once(&x2);
        let _ = w2.collect_violations();
        let t2 = canon(&w2, !exact);
        if t2 != base {
            let sig = if bbr { "c20/r2-time-shift-diverges/controller=Bbr" } else { "c20/r2-time-shift-diverges" };
            return CaseOut::fail(sig, format!("shifting every instant by {} us changed the outputs\n{}", tw.shift_us, first_diff(&base, &t2)));
        }
        labels.push("r2");
    }
    // R3 spurious calls (only meaningful when the base has none)
    let mut r3_calls = 0;
    if x.net.drv.spurious_every == 0 {
        let mut x3 = x.clone();
        x3.net.drv.spurious_every = tw.spurious_every.max(1);
        let (mut w3, _) = run_once(&x3);
        for v in w3.collect_violations() {
            if v.sig.starts_with("c20/") {
                return CaseOut::fail(v.sig, v.msg);
            }
        }
        r3_calls = w3.stats.spurious_calls;
        let t3 = canon(&w3, !exact);
        if t3 != base {
            let sig = if bbr { "c20/r3-extra-calls-change-outputs/controller=Bbr" } else { "c20/r3-extra-calls-change-outputs" };
            return CaseOut::fail(sig, format!("inserting {} spurious handle_timeout/poll_transmit calls changed the outputs\n{}", r3_calls, first_diff(&base, &t3)));
        }
        labels.push("r3");
    }
    let f = trace_facts(&w0);
    if exact {
        labels.push("byte-exact");
    } else {
        labels.push("reduced-trace");
    }
    if w0.conns.iter().any(|c| c.drained_events > 0) {
        labels.push("drained");
    }
    if f.timeouts > 0 {
        labels.push("timer-fired");
    }
    if f.stream_retransmit || f.crypto_retransmit {
        labels.push("retransmission");
    }
    if completed {
        labels.push("completed");
    }
    let nontrivial = f.timeouts > 0 && (f.stream_retransmit || f.crypto_retransmit) && base.len() >= 50 && (x.net.drv.spurious_every != 0 || r3_calls >= 5);
    let sum = serde_json::json!({"outputs": base.len(), "exact": exact, "shift_us": tw.shift_us, "r3_extra_calls": r3_calls, "cc": [format!("{:?}", x.net.client_tc.cc), format!("{:?}", x.net.server_tc.cc)]});
    CaseOut { verdict: Verdict::Pass, labels, nontrivial, summary: Some(sum) }
}

pub fn arb_twin() -> impl Strategy<Value = Twin> {
    let g = XferGen { max_faults: 40, aux_ops: 4, allow_close: true, rustls_share: 5, max_streams: 3, max_total: 40_000, datagrams: true, ..XferGen::default() };
    (
        arb_xfer(g),
        prop_oneof![Just(1u64), 1u64..1_000_000, 1_000_000u64..315_360_000_000_000],
        1u8..6,
        any::<bool>(),
        // the client's source address changes mid-transfer (the server migrates: path challenges on both
        // paths, new congestion state), connection IDs rotate on a short lifetime
        (prop::option::weighted(0.3, 100_000u32..3_000_000), prop::option::weighted(0.3, 100u32..3000), prop::option::weighted(0.3, 100u32..3000)),
        // a blackout: a run of consecutive datagrams in one direction is lost (a peer that stays silent
        // for several timer periods)
        prop::option::weighted(0.25, (any::<bool>(), 0usize..40, 10usize..60)),
    )
        .prop_map(|(mut x, shift_us, spurious_every, idle, (mv, life_c, life_s), blackout)| {
            if let Some((c2s, at, len)) = blackout {
                let f = if c2s { &mut x.net.faults_c2s } else { &mut x.net.faults_s2c };
                let at = at.min(f.len());
                for _ in 0..len {
                    f.insert(at, Fault::Drop);
                }
            }
            if let (Some(t), true) = (mv, x.net.client_ep.cid_len > 0 && x.net.server_ep.cid_len > 0) {
                x.net.client_move_at_us = Some(t);
                x.net.srv.migration = true;
            }
            if x.net.client_ep.cid_lifetime_ms.is_none() {
                x.net.client_ep.cid_lifetime_ms = life_c;
            }
            if x.net.server_ep.cid_lifetime_ms.is_none() {
                x.net.server_ep.cid_lifetime_ms = life_s;
            }
            if idle {
                // finite idle timeouts make connections end (Drained) within the horizon
                x.net.client_tc.idle_ms = Some(3_000);
                x.net.server_tc.idle_ms = Some(5_000);
            }
            Twin { x, shift_us, spurious_every }
        })
}

pub fn run(report: &Report) -> i32 {
    report.assume("byte-exact comparison under SimCrypto with the seeded CID generator; under rustls or the built-in (thread-RNG) CID generators the reduced trace (instant, size, destination, events) is compared");
    report.assume("the TimeSource (wall clock for token timestamps) is a separate input and is not shifted in R2");
    run_prop(
        report,
        "c20",
        "histories from the transfer generator (faults, closes, idle timeouts, datagrams, late timers, client address changes with server migration, connection ID rotation) replayed under R1 identical / R2 time-shifted (1 us .. 10 years) / R3 spurious handle_timeout+poll_transmit calls; oracle: identical canonical output traces (transmits incl. bytes, events, timeouts, poll_timeout values), extra calls return nothing, timeout service converges at one instant, silence after Drained; non-trivial = a timer fired, a retransmission happened, >= 50 outputs and >= 5 spurious calls were inserted",
        arb_twin,
        report.cases(12_000, 400_000),
        case,
    );
    report.finish("generated-input search (proptest) with metamorphic replay relations")
}
