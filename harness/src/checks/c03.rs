//! C03 — peer-controlled input never crashes or hangs an endpoint.
//!
//! The victim is an unmodified quinn endpoint (either role) on the simulated network; the peer is
//! the harness puppet (`puppet.rs`), which authenticates its packets with the SimCrypto keys of
//! the connection and can therefore feed arbitrary frames, in any packet number space, past packet
//! protection. A second, honest quinn connection runs a small workload on the same endpoint.
//!
//! Sub-checks
//!   c03_frames — scripts of authenticated packets: grammar-generated frames with boundary-biased
//!                fields, raw/unknown/truncated frame bytes, duplicated and far-future packet
//!                numbers, unauthenticated garbage and mutated copies of genuine datagrams, from
//!                the established address or another one, interleaved with operations of the
//!                victim's application; one *template* violation with a known error class per case.
//!   c03_tp     — grammar-generated transport parameter lists (legal-but-unusual and malformed)
//!                presented by the puppet in both roles, followed by a short exchange.
//! Oracles (all sub-checks): no panic (overflow included); every call returns (virtual-time step
//! bounds, wall-clock watchdog); the victim's state stays bounded (probe counters, live heap
//! bytes of the case vs. bytes injected); if the victim closes, the application-visible error and
//! the CONNECTION_CLOSE on the wire agree, the code is a transport error code QUIC defines and,
//! after a template violation, one the RFC allows for that violation; the honest connection
//! completes its workload with intact data.

use crate::app::fill_content;
use crate::core::*;
use crate::puppet::{tp_put, tp_put_int, PuppetTp};
use crate::pw::PW;
use crate::simnet::{ConnLoad, NetSpec, CLIENT_EP};
use crate::spec::{AfSpec, EndSpec, ReaderSpec, SideLoad, StreamSpec, TcSpec};
use crate::wire::{self, Frame};
use proptest::prelude::*;
use quinn_proto::{ConnectionError, Dir, Side, VarInt};
use serde::{Deserialize, Serialize};

const INTERNAL: u64 = 0x1;
const FLOW: u64 = 0x3;
const STREAM_LIMIT: u64 = 0x4;
const STREAM_STATE: u64 = 0x5;
const FINAL_SIZE: u64 = 0x6;
const FRAME_ENCODING: u64 = 0x7;
const TRANSPORT_PARAMETER: u64 = 0x8;
const CID_LIMIT: u64 = 0x9;
const PROTOCOL_VIOLATION: u64 = 0xa;
const CRYPTO_BUFFER_EXCEEDED: u64 = 0xd;

const KEY: u64 = 0x0c03;
const V62: u64 = (1 << 62) - 1;

/// A violation with a prescribed error class; resolved against the connection state when sent
#[derive(Serialize, Deserialize, Clone, Debug, PartialEq)]
pub enum Tpl {
    /// frame kind that is not allowed in the Initial (0) or Handshake (1) space
    WrongSpace { space: u8, kind: u8 },
    UnknownType(u16),
    /// a valid frame cut short at the end of the packet
    Truncated { kind: u8, keep: u8 },
    AckUnsent { space: u8, ahead: u16 },
    /// STREAM / RESET_STREAM on a stream only the victim may send on
    DataOnSendOnly { reset: bool },
    /// MAX_STREAM_DATA / STOP_SENDING on a stream only the puppet may send on
    CreditOnRecvOnly { stop: bool },
    /// frame referring to a victim-initiated stream the victim has not opened
    UnopenedLocal { kind: u8, uni: bool, ahead: u8 },
    /// frame (0 STREAM, 1 RESET_STREAM, 2 MAX_STREAM_DATA, 3 STOP_SENDING) on a puppet-initiated
    /// stream at or beyond the advertised stream limit
    BeyondStreamLimit { kind: u8, uni: bool, ahead: u8 },
    MaxStreamsHuge { bidi: bool },
    NcidRetirePriorAboveSeq,
    NcidBadLen(u8),
    NcidOverLimit,
    NcidDupSeqOtherCid,
    RetireUnissued { ahead: u16 },
    HandshakeDoneFromClient,
    NewTokenFromClient,
    NewTokenEmpty,
    DatagramNotNegotiated,
    StreamOffsetOverflow,
    EmptyPayload,
    ReservedBits(u8),
    CryptoBeyondBuffer,
    AckFreqWithoutNegotiation,
    FlowControlStream,
    FinalSizeChange,
}

/// Plain frames with boundary-biased literal fields
#[derive(Serialize, Deserialize, Clone, Debug, PartialEq)]
pub enum HF {
    Lit(Frame),
    /// like `Lit`, but the fields are mapped onto values that are legal in the current connection state
    /// (the frame is dropped if no legal instance exists); keeps the connection alive for deep histories
    Legal(Frame),
    Raw(Vec<u8>),
    /// ACK covering what the puppet really received in that space (keeps the victim calm)
    GoodAck,
    /// ACK frame written field by field (first range, then gap/length pairs), so that ranges may run
    /// below packet number 0 or overlap
    RawAck { largest: u64, delay: u64, first: u64, pairs: Vec<(u64, u64)>, ecn: bool },
}

#[derive(Serialize, Deserialize, Clone, Debug, PartialEq)]
pub enum PnSel {
    Next,
    /// reuse the previous packet number of that space
    Dup,
    Skip(u16),
    Abs(u64),
}

#[derive(Serialize, Deserialize, Clone, Debug, PartialEq)]
pub enum VOp {
    OpenWrite { uni: bool, n: u16, finish: bool },
    ReadSome,
    StopFirst,
    ResetFirst,
    Datagram(u16),
    Ping,
    KeyUpdate,
    SetWindows,
    Close,
}

#[derive(Serialize, Deserialize, Clone, Debug, PartialEq)]
pub enum Mutn {
    FlipBit(u16),
    Truncate(u16),
    Extend(u8),
    SetByte(u16, u8),
    Version(u32),
}

#[derive(Serialize, Deserialize, Clone, Debug, PartialEq)]
pub enum Step {
    Pkt { space: u8, items: Vec<HF>, pn: PnSel, other_addr: bool, pad: u16 },
    Template(Tpl),
    Garbage { bytes: Vec<u8>, other_addr: bool },
    /// a mutated copy of a freshly built genuine 1-RTT PING packet
    Mutated { m: Mutn, long_header: bool },
    Victim(VOp),
    Wait(u32),
    /// `n` packets of one kind in a row (state growth): 0 PATH_CHALLENGE from n different addresses,
    /// 1 CRYPTO at ever higher offsets, 2 one-byte STREAM frames behind gaps, 3 NEW_CONNECTION_ID each
    /// retiring everything before it, 4 PING packets with sparse packet numbers, 5 ACK frames with many
    /// ranges, 6 STOP_SENDING/MAX_STREAM_DATA for every stream index up to the limit, 7 NEW_CONNECTION_ID for
    /// already retired sequence numbers, 8 packets full of empty DATAGRAM frames
    Flood { kind: u8, n: u16 },
}

#[derive(Serialize, Deserialize, Clone, Debug, PartialEq)]
pub struct VictimCfg {
    pub ack_freq: Option<AfSpec>,
    pub cid_len: u8,
    pub dgram: Option<u16>,
    pub recv_window: u32,
    pub stream_window: u32,
    pub max_bidi: u8,
    pub max_uni: u8,
    pub crypto_buf: u16,
    pub migration: bool,
    pub idle_ms: Option<u16>,
}

#[derive(Serialize, Deserialize, Clone, Debug, PartialEq)]
pub struct Case {
    pub seed: u64,
    pub victim_client: bool,
    pub cfg: VictimCfg,
    pub tp: PuppetTp,
    pub puppet_cid_len: u8,
    /// 0: hostile steps start right after the ClientHello (Initial space), 1: after the server's
    /// first flight (Handshake keys known), 2: after the handshake
    pub phase: u8,
    pub honest: bool,
    /// the first `calm` steps carry only input that is legal in the current state (generated frames
    /// are legalized, raw bytes and template violations are skipped), so that hostile input meets a
    /// connection with some history
    #[serde(default)]
    pub calm: u8,
    pub steps: Vec<Step>,
}

fn victim_tc(c: &VictimCfg) -> TcSpec {
    TcSpec {
        recv_window: c.recv_window as u64,
        stream_recv_window: c.stream_window as u64,
        max_bidi: c.max_bidi as u64,
        max_uni: c.max_uni as u64,
        dgram_recv: c.dgram.map(|x| x as u32),
        crypto_buffer: c.crypto_buf as u32,
        idle_ms: c.idle_ms.map(|x| x as u32),
        keep_alive_ms: None,
        mtud: None,
        ack_freq: c.ack_freq.clone(),
        ..TcSpec::default()
    }
}

fn valid_code(c: u64) -> bool {
    c <= 0x10 || (0x100..=0x1ff).contains(&c)
}

/// Workload of the honest connection: one bidirectional stream opened by the side that lives on the
/// victim endpoint (so that the stream count limits of the victim's generated configuration, which
/// may be zero, do not apply), 20 kB out and 2 kB back
fn honest_load(victim_client: bool) -> ConnLoad {
    let s = StreamSpec {
        bidi: true,
        total: 20_000,
        chunks: vec![3000],
        use_write_chunks: false,
        end: EndSpec::Finish,
        reader: ReaderSpec { ordered: true, switch_unordered_after: None, max_len: 4096, chunks_per_turn: 0, stop: None },
        resp_total: 2_000,
        resp_reader_ordered: true,
        priority: 0,
    };
    let opener = SideLoad { streams: vec![s], ops: vec![], dgram_recv_every: 0 };
    if victim_client {
        ConnLoad { client: opener, server: SideLoad::default() }
    } else {
        ConnLoad { client: SideLoad::default(), server: opener }
    }
}

struct Run<'a> {
    c: &'a Case,
    pw: PW,
    labels: Vec<&'static str>,
    last_pn: [u64; 3],
    /// codes allowed for the closure, once a template violation has been sent (None: any defined code)
    allowed: Option<(String, Vec<u64>)>,
    template_sent: bool,
    victim_streams: Vec<u64>,
    victim_closed_locally: bool,
    my_cid_seq: u64,
    log: Vec<String>,
    past_auth: bool,
    start_live: i64,
    /// puppet-side send state for legalized frames: stream -> (end, final size)
    sent: std::collections::BTreeMap<u64, (u64, Option<u64>)>,
    data_sent: u64,
    ncid_seq: u64,
    ncid_retired: u64,
    af_seq: u64,
    retired_victim: std::collections::BTreeSet<u64>,
    /// hostile input whose effect on the victim's state the harness does not model (literal frames,
    /// raw bytes) has been sent: the error class of a later template violation is then not asserted
    unmodelled_input: bool,
    /// the puppet sent bytes that may parse as a CONNECTION_CLOSE (a victim that is already closing then
    /// enters the draining state and, per RFC 9000 10.2.2, may answer with one NO_ERROR close)
    peer_close_possible: bool,
}

impl<'a> Run<'a> {
    /// Map a generated frame onto a legal one for the current state, if possible
    fn legalize(&mut self, f: &Frame) -> Option<Frame> {
        let p_server = self.puppet_is_server();
        if !self.pw.p.established() {
            return match f {
                Frame::Ping | Frame::Padding(_) => Some(f.clone()),
                _ => None,
            };
        }
        // a stream the puppet may send on: own streams below the advertised limit, or a bidirectional
        // stream the victim opened
        let pick_send = |me: &Self, id: u64| -> Option<u64> {
            let uni = id & 2 != 0;
            let adv = me.pw.p.lim.max_streams[uni as usize];
            if id & 1 == 0 || me.victim_streams.iter().all(|v| wire::sid_uni(*v)) {
                if adv == 0 {
                    return None;
                }
                Some(wire::sid(p_server, uni, (id >> 2) % adv.min(16)))
            } else {
                let b: Vec<u64> = me.victim_streams.iter().copied().filter(|v| !wire::sid_uni(*v)).collect();
                Some(b[(id >> 2) as usize % b.len()])
            }
        };
        match f {
            Frame::Stream { id, offset, data, fin, .. } => {
                let id = pick_send(self, *id)?;
                let (end, fsz) = self.sent.get(&id).copied().unwrap_or((0, None));
                let lim_s = self.pw.p.stream_limit(id);
                let room_c = self.pw.p.lim.max_data.saturating_sub(self.data_sent);
                let max_end = lim_s.min(end + room_c).min(fsz.unwrap_or(u64::MAX));
                let off = (*offset % (end + 65)).min(max_end);
                let len = (data.len() as u64).min(max_end - off);
                let new_end = off + len;
                let fin = *fin && fsz.is_none() && new_end >= end;
                if fsz.is_some() && new_end > fsz.unwrap() {
                    return None;
                }
                let mut d = vec![0u8; len as usize];
                fill_content(KEY, id, true, off, &mut d);
                if new_end > end {
                    self.data_sent += new_end - end;
                }
                let e = self.sent.entry(id).or_insert((0, None));
                e.0 = e.0.max(new_end);
                if fin {
                    e.1 = Some(new_end);
                }
                Some(Frame::Stream { id, offset: off, data: d, fin, has_len: true, has_off: true })
            }
            Frame::ResetStream { id, code, .. } => {
                let id = pick_send(self, *id)?;
                let (end, fsz) = self.sent.get(&id).copied().unwrap_or((0, None));
                let fs = fsz.unwrap_or(end);
                self.sent.insert(id, (end.max(fs), Some(fs)));
                Some(Frame::ResetStream { id, code: *code, final_size: fs })
            }
            Frame::StreamDataBlocked { id, limit } => Some(Frame::StreamDataBlocked { id: pick_send(self, *id)?, limit: *limit }),
            Frame::StopSending { id, code } | Frame::MaxStreamData { id, max: code } => {
                // a stream the victim may send on: one it opened, or a bidirectional one of the puppet's
                let cands: Vec<u64> = self.victim_streams.iter().copied().chain(self.sent.keys().copied().filter(|s| !wire::sid_uni(*s) && wire::sid_server_initiated(*s) == p_server)).collect();
                if cands.is_empty() {
                    return None;
                }
                let sid = cands[*id as usize % cands.len()];
                Some(if matches!(f, Frame::StopSending { .. }) { Frame::StopSending { id: sid, code: *code } } else { Frame::MaxStreamData { id: sid, max: *code } })
            }
            Frame::MaxData(_) | Frame::DataBlocked(_) | Frame::PathChallenge(_) | Frame::Ping | Frame::Padding(_) => Some(f.clone()),
            Frame::MaxStreams { bidi, max } => Some(Frame::MaxStreams { bidi: *bidi, max: (*max).min(1 << 60) }),
            Frame::StreamsBlocked { bidi, limit } => Some(Frame::StreamsBlocked { bidi: *bidi, limit: (*limit).min(1 << 60) }),
            Frame::NewConnectionId { cid, reset_token, retire_prior_to, .. } => {
                if self.pw.p.scid.is_empty() || cid.is_empty() {
                    return None;
                }
                let limit = self.pw.p.peer_tp.as_ref().map_or(2, |t| t.int_or(0x0e, 2)).clamp(2, 8);
                self.ncid_seq += 1;
                let seq = self.ncid_seq;
                // keep the number of active IDs within the victim's limit; sometimes retire more
                let need = (seq + 1).saturating_sub(limit);
                let rpt = need.max(self.ncid_retired).max(if retire_prior_to % 4 == 0 { seq.min(self.ncid_retired + 1) } else { 0 });
                self.ncid_retired = rpt;
                let mut c = cid.clone();
                c[0] = seq as u8;
                let mut tok = *reset_token;
                tok[15] = seq as u8;
                if self.pw.p.my_cids.len() < 64 {
                    self.pw.p.my_cids.push(c.clone());
                }
                Some(Frame::NewConnectionId { seq, retire_prior_to: rpt, cid: c, reset_token: tok })
            }
            Frame::RetireConnectionId(n) => {
                if self.c.cfg.cid_len == 0 {
                    return None;
                }
                // retire one of the victim's IDs that is neither in use nor retired already
                let cur = self.pw.p.dcid.clone();
                let cands: Vec<u64> = self.pw.p.victim_cids.iter().filter(|(s, (c, _))| *c != cur && !self.retired_victim.contains(*s)).map(|(s, _)| *s).collect();
                if cands.is_empty() {
                    return None;
                }
                let s = cands[*n as usize % cands.len()];
                self.retired_victim.insert(s);
                Some(Frame::RetireConnectionId(s))
            }
            Frame::NewToken { token } if p_server && !token.is_empty() => Some(f.clone()),
            Frame::HandshakeDone if p_server => Some(Frame::HandshakeDone),
            Frame::AckFrequency { threshold, max_ack_delay, reordering, .. } => {
                let min = self.pw.p.peer_tp.as_ref().and_then(|t| t.int(0xff04de1b))?;
                self.af_seq += 1;
                Some(Frame::AckFrequency { seq: self.af_seq, threshold: *threshold, max_ack_delay: (*max_ack_delay).clamp(min, (1 << 14) * 1000 - 1), reordering: *reordering })
            }
            Frame::ImmediateAck => {
                self.pw.p.peer_tp.as_ref().and_then(|t| t.int(0xff04de1b))?;
                Some(Frame::ImmediateAck)
            }
            Frame::Datagram { data, has_len } => {
                let lim = self.pw.p.peer_tp.as_ref().and_then(|t| t.int(0x20))?;
                if lim < 4 {
                    return None;
                }
                let n = data.len().min(lim as usize - 3).min(1100);
                Some(Frame::Datagram { data: data[..n].to_vec(), has_len: *has_len })
            }
            _ => None,
        }
    }

    fn puppet_is_server(&self) -> bool {
        self.c.victim_client
    }

    fn victim_alive(&self) -> bool {
        match self.pw.vk {
            Some(k) => self.pw.w.conns[k].app.lost.is_empty() && !self.pw.w.conns[k].gone && self.pw.p.closed.is_none() && !self.victim_closed_locally,
            None => false,
        }
    }

    fn mk_cid(&mut self, len: usize) -> Vec<u8> {
        self.my_cid_seq += 1;
        let mut v = Vec::new();
        let mut i = 0;
        while v.len() < len {
            v.extend_from_slice(&mix(self.c.seed ^ 0xc1d5, self.my_cid_seq * 8 + i).to_le_bytes());
            i += 1;
        }
        v.truncate(len);
        if (1..=20).contains(&len) && self.pw.p.my_cids.len() < 64 {
            self.pw.p.my_cids.push(v.clone());
        }
        v
    }

    /// Resolve a template into (space, payload bytes, first-byte xor, allowed codes); None if it does
    /// not apply in this role/state
    fn resolve(&mut self, t: &Tpl) -> Option<(usize, Vec<u8>, u8, Vec<u64>)> {
        let p_server = self.puppet_is_server();
        let enc = |f: &[Frame]| wire::encode_frames(f);
        let data = |id: u64, off: u64, n: usize| {
            let mut d = vec![0u8; n];
            fill_content(KEY, id, true, off, &mut d);
            d
        };
        let established = self.pw.p.established();
        match t {
            Tpl::WrongSpace { space, kind } => {
                let space = (*space % 2) as usize;
                if !self.pw.p.keys_available(space) || (space == 0 && !p_server && self.pw.p.hs >= 4) {
                    return None;
                }
                let f = match kind % 8 {
                    0 => Frame::Stream { id: wire::sid(p_server, false, 0), offset: 0, data: vec![1, 2, 3], fin: false, has_len: true, has_off: true },
                    1 => Frame::MaxData(1 << 20),
                    2 => Frame::NewConnectionId { seq: 1, retire_prior_to: 0, cid: self.mk_cid(8), reset_token: [7; 16] },
                    3 => Frame::HandshakeDone,
                    4 => Frame::PathChallenge(77),
                    5 => Frame::Datagram { data: vec![1, 2, 3], has_len: true },
                    6 => Frame::ApplicationClose { code: 3, reason: vec![] },
                    _ => Frame::StopSending { id: 0, code: 1 },
                };
                // Initial keys at a server victim are only usable until it has seen a Handshake packet
                Some((space, enc(&[f]), 0, vec![PROTOCOL_VIOLATION]))
            }
            Tpl::UnknownType(ty) => {
                if !established {
                    return None;
                }
                // pick a type that neither RFC 9000/9221 nor the ack-frequency draft defines
                let mut ty = 0x40u64 + (*ty as u64 % 0x3000);
                if ty == 0xaf || ty == 0x1f {
                    ty += 1;
                }
                let mut v = Vec::new();
                wire::put_var(&mut v, ty);
                v.extend_from_slice(&[0, 0, 0]);
                Some((2, v, 0, vec![FRAME_ENCODING]))
            }
            Tpl::Truncated { kind, keep } => {
                if !established {
                    return None;
                }
                let f = match kind % 6 {
                    0 => Frame::Stream { id: wire::sid(p_server, false, 0), offset: 5, data: data(0, 5, 40), fin: false, has_len: true, has_off: true },
                    1 => Frame::NewConnectionId { seq: 1, retire_prior_to: 0, cid: self.mk_cid(8), reset_token: [7; 16] },
                    2 => Frame::Ack { largest: self.pw.p.rx[2].largest.unwrap_or(0), delay: 300, ranges: vec![(0, self.pw.p.rx[2].largest.unwrap_or(0))], ecn: Some((1, 2, 3)) },
                    3 => Frame::ResetStream { id: wire::sid(p_server, false, 0), code: 300, final_size: 70000 },
                    4 => Frame::PathChallenge(0x1122334455667788),
                    _ => Frame::ConnectionClose { code: 300, frame_type: 300, reason: vec![b'x'; 30] },
                };
                let full = enc(&[f]);
                if full.len() < 2 {
                    return None;
                }
                let keep = 1 + (*keep as usize % (full.len() - 1));
                Some((2, full[..keep].to_vec(), 0, vec![FRAME_ENCODING]))
            }
            Tpl::AckUnsent { space, ahead } => {
                let space = (*space % 3) as usize;
                if !self.pw.p.keys_available(space) || (space < 2 && self.pw.p.hs >= 4 && !p_server) || (space == 2 && !established) {
                    return None;
                }
                if space == 0 && self.pw.p.hs >= 3 {
                    return None;
                }
                // the victim's next packet number is at most (largest seen + 1) only if nothing is in
                // flight towards the puppet; stay far ahead to be unambiguous
                let largest = self.pw.p.rx[space].largest.unwrap_or(0) + 1000 + *ahead as u64;
                Some((space, enc(&[Frame::Ack { largest, delay: 0, ranges: vec![(largest, largest)], ecn: None }]), 0, vec![PROTOCOL_VIOLATION]))
            }
            Tpl::DataOnSendOnly { reset } => {
                if !established {
                    return None;
                }
                // a unidirectional stream initiated by the victim: the puppet may never send on it
                let id = wire::sid(!p_server, true, 0);
                let f = if *reset { Frame::ResetStream { id, code: 1, final_size: 0 } } else { Frame::Stream { id, offset: 0, data: vec![9], fin: false, has_len: true, has_off: true } };
                Some((2, enc(&[f]), 0, vec![STREAM_STATE]))
            }
            Tpl::CreditOnRecvOnly { stop } => {
                if !established || self.pw.p.lim.max_streams[1] == 0 {
                    return None;
                }
                let id = wire::sid(p_server, true, 0);
                let f = if *stop { Frame::StopSending { id, code: 1 } } else { Frame::MaxStreamData { id, max: 1 << 20 } };
                Some((2, enc(&[f]), 0, vec![STREAM_STATE]))
            }
            Tpl::UnopenedLocal { kind, uni, ahead } => {
                if !established {
                    return None;
                }
                // victim-initiated stream with an index the victim has certainly not opened
                let opened = self.victim_streams.iter().filter(|id| wire::sid_uni(**id) == *uni).count() as u64;
                let id = wire::sid(!p_server, *uni, opened + *ahead as u64);
                let f = match (kind % 4, *uni) {
                    (0, false) => Frame::Stream { id, offset: 0, data: vec![1], fin: false, has_len: true, has_off: true },
                    (1, false) => Frame::ResetStream { id, code: 1, final_size: 0 },
                    (2, _) => Frame::MaxStreamData { id, max: 1 << 20 },
                    (_, _) => Frame::StopSending { id, code: 1 },
                };
                Some((2, enc(&[f]), 0, vec![STREAM_STATE]))
            }
            Tpl::BeyondStreamLimit { kind, uni, ahead } => {
                if !established {
                    return None;
                }
                let adv = self.pw.p.lim.max_streams[*uni as usize];
                let id = wire::sid(p_server, *uni, adv + *ahead as u64);
                let (f, codes) = match (kind % 4, *uni) {
                    (0, _) => (Frame::Stream { id, offset: 0, data: vec![1], fin: false, has_len: true, has_off: true }, vec![STREAM_LIMIT]),
                    (1, _) => (Frame::ResetStream { id, code: 1, final_size: 0 }, vec![STREAM_LIMIT]),
                    (2, false) => (Frame::MaxStreamData { id, max: 1 << 20 }, vec![STREAM_LIMIT]),
                    (3, false) => (Frame::StopSending { id, code: 1 }, vec![STREAM_LIMIT]),
                    // on a receive-only stream these are STREAM_STATE_ERRORs whatever the index
                    (2, true) => (Frame::MaxStreamData { id, max: 1 << 20 }, vec![STREAM_STATE, STREAM_LIMIT]),
                    _ => (Frame::StopSending { id, code: 1 }, vec![STREAM_STATE, STREAM_LIMIT]),
                };
                Some((2, enc(&[f]), 0, codes))
            }
            Tpl::MaxStreamsHuge { bidi } => {
                if !established {
                    return None;
                }
                Some((2, enc(&[Frame::MaxStreams { bidi: *bidi, max: (1 << 60) + 1 }]), 0, vec![FRAME_ENCODING, STREAM_LIMIT]))
            }
            Tpl::NcidRetirePriorAboveSeq => {
                if !established || self.pw.p.scid.is_empty() {
                    return None;
                }
                let cid = self.mk_cid(8);
                Some((2, enc(&[Frame::NewConnectionId { seq: 1, retire_prior_to: 2, cid, reset_token: [3; 16] }]), 0, vec![FRAME_ENCODING]))
            }
            Tpl::NcidBadLen(l) => {
                if !established || self.pw.p.scid.is_empty() {
                    return None;
                }
                let len = if l % 2 == 0 { 0 } else { 21 + (*l as usize % 200) };
                let cid = self.mk_cid(len);
                Some((2, enc(&[Frame::NewConnectionId { seq: 1, retire_prior_to: 0, cid, reset_token: [3; 16] }]), 0, vec![FRAME_ENCODING]))
            }
            Tpl::NcidOverLimit => {
                if !established || self.pw.p.scid.is_empty() {
                    return None;
                }
                // the victim's active_connection_id_limit (default 2 when absent)
                let limit = self.pw.p.peer_tp.as_ref().map_or(2, |t| t.int_or(0x0e, 2));
                if limit > 64 {
                    return None;
                }
                let mut fr = vec![];
                for s in 1..=(limit + 1) {
                    let cid = self.mk_cid(8);
                    let mut tok = [0u8; 16];
                    tok[..8].copy_from_slice(&mix(self.c.seed, s).to_le_bytes());
                    fr.push(Frame::NewConnectionId { seq: s, retire_prior_to: 0, cid, reset_token: tok });
                }
                Some((2, enc(&fr), 0, vec![CID_LIMIT]))
            }
            Tpl::NcidDupSeqOtherCid => {
                if !established || self.pw.p.scid.is_empty() {
                    return None;
                }
                let a = self.mk_cid(8);
                let b = self.mk_cid(8);
                let fr = vec![
                    Frame::NewConnectionId { seq: 1, retire_prior_to: 0, cid: a, reset_token: [1; 16] },
                    Frame::NewConnectionId { seq: 1, retire_prior_to: 0, cid: b, reset_token: [1; 16] },
                ];
                Some((2, enc(&fr), 0, vec![PROTOCOL_VIOLATION]))
            }
            Tpl::RetireUnissued { ahead } => {
                if !established {
                    return None;
                }
                let max_seen = self.pw.p.victim_cids.keys().max().copied().unwrap_or(0);
                Some((2, enc(&[Frame::RetireConnectionId(max_seen + 1000 + *ahead as u64)]), 0, vec![PROTOCOL_VIOLATION]))
            }
            Tpl::HandshakeDoneFromClient => {
                if !established || p_server {
                    return None;
                }
                Some((2, enc(&[Frame::HandshakeDone]), 0, vec![PROTOCOL_VIOLATION]))
            }
            Tpl::NewTokenFromClient => {
                if !established || p_server {
                    return None;
                }
                Some((2, enc(&[Frame::NewToken { token: vec![1, 2, 3, 4] }]), 0, vec![PROTOCOL_VIOLATION]))
            }
            Tpl::NewTokenEmpty => {
                if !established || !p_server {
                    return None;
                }
                Some((2, enc(&[Frame::NewToken { token: vec![] }]), 0, vec![FRAME_ENCODING]))
            }
            Tpl::DatagramNotNegotiated => {
                if !established || self.c.cfg.dgram.is_some() {
                    return None;
                }
                Some((2, enc(&[Frame::Datagram { data: vec![1, 2, 3], has_len: true }]), 0, vec![PROTOCOL_VIOLATION]))
            }
            Tpl::StreamOffsetOverflow => {
                if !established || self.pw.p.lim.max_streams[0] == 0 {
                    return None;
                }
                let id = wire::sid(p_server, false, 0);
                Some((2, enc(&[Frame::Stream { id, offset: V62 - 1, data: vec![1, 2, 3, 4], fin: false, has_len: true, has_off: true }]), 0, vec![FRAME_ENCODING, FLOW, FINAL_SIZE]))
            }
            Tpl::EmptyPayload => {
                if !established {
                    return None;
                }
                // a packet whose payload consists of nothing: build_packet pads to 4 bytes with PADDING
                // frames, which is legal; an empty payload therefore needs pn_len 4 and zero bytes.
                Some((2, vec![], 0, vec![PROTOCOL_VIOLATION]))
            }
            Tpl::ReservedBits(b) => {
                if !established {
                    return None;
                }
                let bits = 0x08 << (b % 2);
                Some((2, enc(&[Frame::Ping]), bits, vec![PROTOCOL_VIOLATION]))
            }
            Tpl::CryptoBeyondBuffer => {
                if !established {
                    return None;
                }
                let off = self.c.cfg.crypto_buf as u64 + 10;
                Some((2, enc(&[Frame::Crypto { offset: off, data: vec![0xcc; 20] }]), 0, vec![CRYPTO_BUFFER_EXCEEDED]))
            }
            Tpl::AckFreqWithoutNegotiation => {
                if !established || self.c.cfg.ack_freq.is_some() {
                    return None;
                }
                // the victim did not advertise min_ack_delay: ACK_FREQUENCY is not a frame it knows
                if self.pw.p.peer_tp.as_ref().is_some_and(|t| t.raw.contains_key(&0xff04de1b)) {
                    return None;
                }
                Some((2, enc(&[Frame::AckFrequency { seq: 0, threshold: 1, max_ack_delay: 25_000, reordering: 1 }]), 0, vec![FRAME_ENCODING, PROTOCOL_VIOLATION]))
            }
            Tpl::FlowControlStream => {
                if !established || self.pw.p.lim.max_streams[0] == 0 {
                    return None;
                }
                let id = wire::sid(p_server, false, 0);
                // far beyond anything the victim can have granted: windows are at most 2^17 in this check
                Some((2, enc(&[Frame::Stream { id, offset: 1 << 40, data: vec![1], fin: false, has_len: true, has_off: true }]), 0, vec![FLOW, FINAL_SIZE])) // (a literal frame sent earlier may have fixed a final size)
            }
            Tpl::FinalSizeChange => {
                if !established || self.pw.p.lim.max_streams[0] == 0 || self.pw.p.stream_limit(wire::sid(p_server, false, 0)) < 3 || self.pw.p.lim.max_data < 3 {
                    return None;
                }
                let id = wire::sid(p_server, false, 0);
                let fr = vec![
                    Frame::Stream { id, offset: 0, data: data(id, 0, 2), fin: true, has_len: true, has_off: true },
                    Frame::Stream { id, offset: 2, data: data(id, 2, 1), fin: false, has_len: true, has_off: true },
                ];
                Some((2, enc(&fr), 0, vec![FINAL_SIZE, FLOW]))
            }
        }
    }

    fn send_payload(&mut self, space: usize, payload: &[u8], pn: &PnSel, xor: u8, other_addr: bool, pad: u16) {
        if !self.pw.p.keys_available(space) {
            return;
        }
        let pn_abs = match pn {
            PnSel::Next => None,
            PnSel::Dup => Some(self.last_pn[space]),
            PnSel::Skip(n) => {
                self.pw.p.next_pn[space] += *n as u64;
                None
            }
            PnSel::Abs(n) => Some(*n & V62),
        };
        if pn_abs.is_none() {
            self.last_pn[space] = self.pw.p.next_pn[space];
        }
        let min_len = if space == 0 && !self.puppet_is_server() { 1200 } else { pad as usize % 1300 };
        let empty = payload.is_empty();
        let d = if empty {
            // genuinely empty payload: pn_len 4 satisfies the sample-length rule by itself
            let mut out = Vec::new();
            let n = self.pw.p.next_pn[space];
            self.pw.p.next_pn[space] += 1;
            let b = wire::BuildPkt {
                ty: if space == 2 { wire::PktType::Short } else if space == 1 { wire::PktType::Handshake } else { wire::PktType::Initial },
                version: 1,
                dcid: &self.pw.p.dcid.clone(),
                scid: &self.pw.p.scid.clone(),
                token: &[],
                pn: n,
                pn_len: 4,
                key_phase: self.pw.p.gen & 1 == 1,
                payload: &[],
                key: self.pw.p.tx_key(space),
                min_len: 0,
                first_byte_xor: 0,
            };
            wire::build_packet(&b, &mut out);
            out
        } else {
            self.pw.p.packet_raw(space, payload, min_len, pn_abs, xor)
        };
        if other_addr {
            let from = crate::simnet::addr_v6(0x78, 7878);
            self.pw.send_from(from, d);
        } else {
            self.pw.send(d);
        }
    }

    fn frames_of(&mut self, space: usize, items: &[HF], calm: bool) -> Vec<u8> {
        let mut v = Vec::new();
        for it in items {
            let as_legal;
            let it = match (calm, it) {
                (true, HF::Lit(f)) => {
                    as_legal = HF::Legal(f.clone());
                    &as_legal
                }
                (true, HF::Raw(_)) | (true, HF::RawAck { .. }) => continue,
                _ => it,
            };
            if matches!(it, HF::Lit(_) | HF::Raw(_) | HF::RawAck { .. }) {
                self.unmodelled_input = true;
            }
            match it {
                HF::Lit(Frame::ConnectionClose { .. }) | HF::Lit(Frame::ApplicationClose { .. }) => self.peer_close_possible = true,
                HF::Raw(b) if b.iter().any(|x| *x == 0x1c || *x == 0x1d) => self.peer_close_possible = true,
                _ => {}
            }
            match it {
                HF::Lit(f) => {
                    if let Frame::NewConnectionId { cid, .. } = f {
                        if self.pw.p.my_cids.len() < 64 && !cid.is_empty() {
                            self.pw.p.my_cids.push(cid.clone());
                        }
                    }
                    wire::encode_frame(f, &mut v)
                }
                HF::Legal(f) => {
                    if let Some(g) = self.legalize(f) {
                        let last_no_len = matches!(g, Frame::Datagram { has_len: false, .. });
                        wire::encode_frame(&g, &mut v);
                        if last_no_len {
                            break;
                        }
                    }
                }
                HF::RawAck { largest, delay, first, pairs, ecn } => {
                    v.push(if *ecn { 0x03 } else { 0x02 });
                    wire::put_var(&mut v, *largest);
                    wire::put_var(&mut v, *delay);
                    wire::put_var(&mut v, pairs.len() as u64);
                    wire::put_var(&mut v, *first);
                    for (g, l) in pairs {
                        wire::put_var(&mut v, *g);
                        wire::put_var(&mut v, *l);
                    }
                    if *ecn {
                        v.extend_from_slice(&[1, 2, 3]);
                    }
                }
                HF::Raw(b) => v.extend_from_slice(b),
                HF::GoodAck => {
                    if let Some(a) = self.pw.p.ack_frame(space) {
                        wire::encode_frame(&a, &mut v);
                    }
                }
            }
        }
        v
    }

    /// Sync, then check everything that must hold after any input
    fn settle(&mut self, what: &str) -> Result<(), CaseOut> {
        if !self.pw.sync(1_000_000) {
            return Err(CaseOut::inconclusive("step limit"));
        }
        if let Some(v) = self.pw.w.viol.first() {
            return Err(CaseOut::fail(v.sig.clone(), format!("{}\nafter {what}\nlog: {:#?}", v.msg, self.log)));
        }
        let Some(k) = self.pw.vk else { return Ok(()) };
        // error class
        let lost = self.pw.w.conns[k].app.lost_reasons.first().cloned();
        let wire_close = self.pw.p.closed.clone();
        let mut code = None;
        match &lost {
            Some(ConnectionError::TransportError(e)) => code = Some(u64::from(e.code)),
            Some(ConnectionError::ConnectionClosed(_)) | Some(ConnectionError::ApplicationClosed(_)) | Some(ConnectionError::LocallyClosed) | Some(ConnectionError::TimedOut) | Some(ConnectionError::Reset) => {}
            Some(ConnectionError::VersionMismatch) | Some(ConnectionError::CidsExhausted) => {}
            None => {}
        }
        // The endpoint itself may answer stray Initial packets with a stateless CONNECTION_CLOSE
        // (Initial space only), so compare with every close seen, not just the first
        if let (Some(lc), false) = (code, self.pw.p.closes.is_empty()) {
            // a victim whose own close was still held back (anti-amplification on a fresh path) when the
            // peer's close arrived is draining: its single permitted packet carries NO_ERROR
            let draining_reply = self.peer_close_possible && self.pw.p.closes.iter().any(|wc| !wc.app && wc.code == 0 && wc.reason.is_empty());
            if !self.victim_closed_locally && !draining_reply && !self.pw.p.closes.iter().any(|wc| !wc.app && wc.code == lc) {
                if std::env::var("QV_TRACE").is_ok() {
                    eprintln!("{}", self.pw.w.dump_trace(0, 400));
                }
                return Err(CaseOut::fail("c03/close-code-mismatch", format!("after {what}: application sees transport error 0x{lc:x} but the CONNECTION_CLOSE frames on the wire carry {:?}", self.pw.p.closes)));
            }
        }
        if let Some(wc) = self.pw.p.closes.iter().find(|wc| wc.space > 0) {
            if !wc.app && !self.victim_closed_locally {
                code = code.or(Some(wc.code));
            }
        }
        let _ = &wire_close;
        if let Some(c) = code {
            if !valid_code(c) {
                return Err(CaseOut::fail("c03/undefined-error-code", format!("after {what}: victim closed with transport error code 0x{c:x}, which QUIC does not define")));
            }
            if c == INTERNAL {
                return Err(CaseOut::fail(
                    "c03/internal-error",
                    format!("after {what}: victim closed with INTERNAL_ERROR ({:?}): peer input must map to the error class of the violation\nlog: {:#?}", lost, self.log),
                ));
            }
            if let Some((tpl, allowed)) = &self.allowed {
                if !allowed.contains(&c) {
                    return Err(CaseOut::fail(
                        format!("c03/wrong-error-class/{}", tpl.split(|ch: char| !ch.is_alphanumeric()).next().unwrap_or("")),
                        format!("after template violation {tpl}: victim closed with 0x{c:x} ({:?}); RFC 9000 prescribes one of {:x?}\nlog: {:#?}", lost, allowed, self.log),
                    ));
                }
            }
        }
        // bounded state
        let pr = self.pw.w.conns[k].c.verif_probe();
        // whatever the peer advertises (max_udp_payload_size may be any value from 1200 up to 2^62-1), the
        // path MTU estimate never falls below the 1200 bytes every QUIC path supports
        if pr.current_mtu < 1200 {
            return Err(CaseOut::fail("c13/mtu-below-1200", format!("after {what}: the victim's path MTU estimate is {} (peer max_udp_payload_size {})", pr.current_mtu, self.c.tp.max_udp)));
        }
        let inj = self.pw.injected_dgrams as usize;
        let bad = |name: &str, v: usize, bound: usize| -> Option<CaseOut> {
            if v > bound {
                Some(CaseOut::fail(format!("c03/unbounded/{name}"), format!("after {what}: {name} = {v} exceeds bound {bound} ({} datagrams injected)", inj)))
            } else {
                None
            }
        };
        if let Some(o) = bad("path_responses", pr.path_responses, 64) {
            return Err(o);
        }
        // quinn caps the queue when a NEW_CONNECTION_ID adds to it; frames that were sent and declared
        // lost return to it (bounded by what congestion control let out), so the bound is the slack plus
        // the RETIRE_CONNECTION_ID frames the victim has put on the wire
        let retire_sent = self.pw.w.conns[k].c.stats().frame_tx.retire_connection_id as usize;
        if let Some(o) = bad("pending_retire_cids", pr.pending_retire_cids, 512 + retire_sent) {
            return Err(o);
        }
        if let Some(o) = bad("crypto_buffered", pr.crypto_buffered.iter().copied().max().unwrap_or(0), self.c.cfg.crypto_buf as usize * 5 / 2 + 32768 + 1500) {
            return Err(o);
        }
        if let Some(o) = bad("recv_entries", pr.streams.recv_entries, (self.c.cfg.max_bidi as usize + self.c.cfg.max_uni as usize) * 2 + 2 * self.victim_streams.len() + 520) {
            return Err(o);
        }
        if let Some(o) = bad("sent_packets", pr.sent_packets.iter().sum(), 4096) {
            return Err(o);
        }
        if let Some(cap) = self.c.cfg.dgram {
            if let Some(o) = bad("datagram_recv_buffered", pr.datagram_recv_buffered, cap as usize) {
                return Err(o);
            }
            // every buffered datagram holds a queue slot, whatever its length: the number of datagrams
            // waiting for the application is bounded by the buffer size as well
            if let Some(o) = bad("datagram_incoming", pr.datagram_incoming, cap as usize + 64) {
                return Err(o);
            }
        }
        // heap held by this case (victim, honest connection, harness bookkeeping) against what was injected
        let live = crate::alloc_count::live() - self.start_live;
        let budget = 24_000_000i64 + 256 * self.pw.injected_bytes as i64;
        if live > budget {
            return Err(CaseOut::fail(
                "c03/unbounded/heap",
                format!("after {what}: the case holds {live} live heap bytes after {} injected bytes (budget {budget})\nlog: {:#?}", self.pw.injected_bytes, self.log),
            ));
        }
        if pr.total_authed_packets > 0 {
            self.past_auth = true;
        }
        Ok(())
    }

    fn victim_op(&mut self, op: &VOp) {
        let Some(k) = self.pw.vk else { return };
        if !self.victim_alive() {
            return;
        }
        let now = self.pw.w.now_instant();
        let c = &mut self.pw.w.conns[k].c;
        match op {
            VOp::OpenWrite { uni, n, finish } => {
                let dir = if *uni { Dir::Uni } else { Dir::Bi };
                if let Some(id) = c.streams().open(dir) {
                    let mut d = vec![0u8; *n as usize];
                    fill_content(KEY, u64::from(id), false, 0, &mut d);
                    let _ = c.send_stream(id).write(&d);
                    if *finish {
                        let _ = c.send_stream(id).finish();
                    }
                    self.victim_streams.push(u64::from(id));
                    self.labels.push("victim-opened-stream");
                }
            }
            VOp::ReadSome => {
                for dir in [Dir::Bi, Dir::Uni] {
                    let mut n = 0;
                    while let Some(id) = c.streams().accept(dir) {
                        n += 1;
                        if n > 2000 {
                            break;
                        }
                        let mut rs = c.recv_stream(id);
                        let res = rs.read(true);
                        if let Ok(mut ch) = res {
                            let mut g = 0;
                            while let Ok(Some(_)) = ch.next(4096) {
                                g += 1;
                                if g > 10_000 {
                                    break;
                                }
                            }
                            let _ = ch.finalize();
                        }
                    }
                }
                while c.datagrams().recv().is_some() {}
            }
            VOp::StopFirst => {
                let id = quinn_proto::StreamId::new(if self.c.victim_client { Side::Server } else { Side::Client }, Dir::Bi, 0);
                let _ = c.recv_stream(id).stop(VarInt::from_u32(3));
            }
            VOp::ResetFirst => {
                if let Some(id) = self.victim_streams.first() {
                    let _ = c.send_stream(crate::app::stream_id(*id)).reset(VarInt::from_u32(4));
                }
            }
            VOp::Datagram(n) => {
                let _ = c.datagrams().send(vec![0xdd; *n as usize].into(), true);
            }
            VOp::Ping => c.ping(),
            VOp::KeyUpdate => c.force_key_update(),
            VOp::SetWindows => {
                c.set_receive_window(VarInt::from_u32(5000));
                c.set_max_concurrent_streams(Dir::Bi, VarInt::from_u32(3));
                c.set_send_window(4000);
            }
            VOp::Close => {
                c.close(now, VarInt::from_u32(9), b"bye"[..].into());
                self.victim_closed_locally = true;
            }
        }
        self.pw.touch();
    }

    fn step(&mut self, i: usize, st: &Step) -> Result<(), CaseOut> {
        let what = format!("step {i} {}", {
            let s = format!("{st:?}");
            if s.len() > 300 {
                format!("{}…", &s[..300])
            } else {
                s
            }
        });
        self.log.push(what.clone());
        if self.log.len() > 12 {
            self.log.remove(0);
        }
        match st {
            Step::Pkt { space, items, pn, other_addr, pad } => {
                let (pn, other_addr) = if i < self.c.calm as usize { (&PnSel::Next, &false) } else { (pn, other_addr) };
                let calm = i < self.c.calm as usize;
                let space = if calm && self.pw.p.established() { 2 } else { (*space % 3) as usize };
                let payload = self.frames_of(space, items, calm);
                if payload.is_empty() {
                    return Ok(());
                }
                self.send_payload(space, &payload, pn, 0, *other_addr, *pad);
                self.labels.push(match space {
                    0 => "pkt-initial-space",
                    1 => "pkt-handshake-space",
                    _ => "pkt-1rtt",
                });
            }
            Step::Template(t) => {
                if self.template_sent || !self.victim_alive() || i < self.c.calm as usize {
                    return Ok(());
                }
                if let Some((space, payload, xor, codes)) = self.resolve(t) {
                    self.template_sent = true;
                    if !self.unmodelled_input {
                        self.allowed = Some((format!("{t:?}"), codes));
                    }
                    self.send_payload(space, &payload, &PnSel::Next, xor, false, 0);
                    self.labels.push("template-violation");
                }
            }
            Step::Garbage { bytes, other_addr } => {
                if bytes.is_empty() {
                    return Ok(());
                }
                if *other_addr {
                    self.pw.send_from(crate::simnet::addr_v6(0x78, 7878), bytes.clone());
                } else {
                    self.pw.send(bytes.clone());
                }
                self.labels.push("garbage-datagram");
            }
            Step::Mutated { m, long_header } => {
                let space = if *long_header && self.pw.p.keys_available(1) && self.pw.p.hs < 4 { 1 } else { 2 };
                if !self.pw.p.keys_available(space) {
                    return Ok(());
                }
                // a genuine packet whose number is not consumed: the mutated copy must not authenticate
                let n = self.pw.p.next_pn[space] + 5000;
                let mut d = self.pw.p.packet_raw(space, &wire::encode_frames(&[Frame::Ping, Frame::Padding(30)]), 0, Some(n), 0);
                match m {
                    Mutn::FlipBit(b) => {
                        let i = *b as usize % (d.len() * 8);
                        d[i / 8] ^= 1 << (i % 8);
                    }
                    Mutn::Truncate(k) => {
                        let k = *k as usize % d.len();
                        d.truncate(k.max(1));
                    }
                    Mutn::Extend(k) => d.extend(std::iter::repeat(0x5a).take(*k as usize)),
                    Mutn::SetByte(i, v) => {
                        let i = *i as usize % d.len();
                        d[i] = *v;
                    }
                    Mutn::Version(v) => {
                        if d[0] & 0x80 != 0 && d.len() > 5 {
                            d[1..5].copy_from_slice(&v.to_be_bytes());
                        }
                    }
                }
                self.pw.send(d);
                self.labels.push("mutated-genuine-datagram");
            }
            Step::Flood { kind, n } => {
                if !self.pw.p.established() || !self.victim_alive() || i < self.c.calm as usize {
                    return Ok(());
                }
                let n = (*n as u64).min(400);
                let p_server = self.puppet_is_server();
                self.labels.push("flood");
                for j in 0..n {
                    if !self.victim_alive() {
                        break;
                    }
                    match kind % 9 {
                        0 => {
                            let d = self.pw.p.packet(2, &[Frame::PathChallenge(mix(self.c.seed, j)), Frame::Padding(1200)], 0);
                            self.pw.send_from(crate::simnet::addr_v6(0x100 + j as u16, 9000 + j as u16), d);
                        }
                        1 => {
                            let d = self.pw.p.packet(2, &[Frame::Crypto { offset: 10 + j * 1100, data: vec![0xcc; 1000] }], 0);
                            self.pw.send(d);
                        }
                        2 => {
                            let Some(Frame::Stream { id, .. }) = self.legalize(&Frame::Stream { id: 0, offset: 0, data: vec![], fin: false, has_len: true, has_off: true }) else { break };
                            let lim = self.pw.p.stream_limit(id).min(self.pw.p.lim.max_data);
                            let off = 1 + 2 * j;
                            if off + 1 > lim {
                                break;
                            }
                            let mut b = [0u8; 1];
                            fill_content(KEY, id, true, off, &mut b);
                            let e = self.sent.entry(id).or_insert((0, None));
                            if e.1.is_some() {
                                break;
                            }
                            if off + 1 > e.0 {
                                self.data_sent += off + 1 - e.0;
                                e.0 = off + 1;
                            }
                            let d = self.pw.p.packet(2, &[Frame::Stream { id, offset: off, data: b.to_vec(), fin: false, has_len: true, has_off: true }], 0);
                            self.pw.send(d);
                        }
                        3 => {
                            if self.pw.p.scid.is_empty() {
                                break;
                            }
                            self.ncid_seq += 1;
                            let seq = self.ncid_seq;
                            self.ncid_retired = seq;
                            let mut cid = self.mk_cid(8);
                            cid[0] = seq as u8;
                            cid[1] = (seq >> 8) as u8;
                            let mut tok = [0u8; 16];
                            tok[..8].copy_from_slice(&mix(self.c.seed ^ 0x70c, seq).to_le_bytes());
                            let d = self.pw.p.packet(2, &[Frame::NewConnectionId { seq, retire_prior_to: seq, cid: cid.clone(), reset_token: tok }], 0);
                            // later packets must carry an ID the victim still considers valid
                            self.pw.send(d);
                        }
                        8 => {
                            // packets filled with empty DATAGRAM frames (two bytes each on the wire)
                            if self.c.cfg.dgram.is_none() {
                                break;
                            }
                            let frames: Vec<Frame> = (0..500).map(|_| Frame::Datagram { data: vec![], has_len: true }).collect();
                            let d = self.pw.p.packet(2, &frames, 0);
                            self.pw.send(d);
                        }
                        7 => {
                            // NEW_CONNECTION_ID frames for sequence numbers the victim has already retired: first
                            // one frame that moves Retire Prior To far ahead, then a different old number each time
                            if self.pw.p.scid.is_empty() {
                                break;
                            }
                            let (seq, rpt) = if j == 0 {
                                self.ncid_seq += 100_000;
                                self.ncid_retired = self.ncid_seq;
                                (self.ncid_seq, self.ncid_seq)
                            } else {
                                (self.ncid_retired.saturating_sub(j).max(1), 0)
                            };
                            let mut cid = self.mk_cid(8);
                            cid[0] = seq as u8;
                            cid[1] = (seq >> 8) as u8;
                            cid[2] = (seq >> 16) as u8;
                            let mut tok = [0u8; 16];
                            tok[..8].copy_from_slice(&mix(self.c.seed ^ 0x70d, seq).to_le_bytes());
                            let d = self.pw.p.packet(2, &[Frame::NewConnectionId { seq, retire_prior_to: rpt, cid, reset_token: tok }], 0);
                            self.pw.send(d);
                        }
                        4 => {
                            self.pw.p.next_pn[2] += 2;
                            let d = self.pw.p.packet(2, &[Frame::Ping], 0);
                            self.pw.send(d);
                        }
                        5 => {
                            let largest = self.pw.p.rx[2].largest.unwrap_or(0);
                            let mut ranges = vec![];
                            let mut hi = largest;
                            loop {
                                ranges.push((hi, hi));
                                if hi < 2 || ranges.len() >= 200 {
                                    break;
                                }
                                hi -= 2;
                            }
                            let d = self.pw.p.packet(2, &[Frame::Ack { largest, delay: j, ranges, ecn: None }], 0);
                            self.pw.send(d);
                        }
                        _ => {
                            let adv = self.pw.p.lim.max_streams[0];
                            if j >= adv {
                                break;
                            }
                            let id = wire::sid(p_server, false, j);
                            let d = self.pw.p.packet(2, &[Frame::MaxStreamData { id, max: 1 << 30 }, Frame::StopSending { id, code: 1 }], 0);
                            self.pw.send(d);
                        }
                    }
                    if j % 16 == 15 {
                        self.settle(&what)?;
                    }
                }
            }
            Step::Victim(op) => self.victim_op(op),
            Step::Wait(us) => {
                let until = self.pw.w.now + (*us as u64).min(3_000_000);
                if !self.pw.pump(until) {
                    return Err(CaseOut::inconclusive("step limit"));
                }
            }
        }
        let r = self.settle(&what);
        // the prescribed class applies to a closure caused by the template packet itself; if the
        // victim ignored it (which the property allows), later closures have other causes
        if matches!(st, Step::Template(_)) {
            self.allowed = None;
        }
        r
    }
}

pub fn case(c: &Case) -> CaseOut {
    if c.cfg.crypto_buf < 256 {
        return CaseOut::discard("crypto buffer smaller than the handshake");
    }
    let start_live = crate::alloc_count::live();
    let mut spec = NetSpec::default();
    spec.seed = c.seed;
    let side = if c.victim_client { Side::Client } else { Side::Server };
    if c.victim_client {
        spec.client_tc = victim_tc(&c.cfg);
        spec.client_ep.cid_len = c.cfg.cid_len;
    } else {
        spec.server_tc = victim_tc(&c.cfg);
        spec.server_ep.cid_len = c.cfg.cid_len;
        spec.srv.migration = c.cfg.migration;
    }
    let mut pw = PW::new(spec, side, c.seed, c.puppet_cid_len as usize, 8 + (c.seed % 13) as usize, c.tp.clone());
    pw.w.record = std::env::var("QV_TRACE").is_ok();
    pw.w.observe = std::env::var("QV_TRACE").is_ok();
    pw.w.check_amp = false;
    pw.p.log_frames = false;
    // honest connection on the same endpoint
    let mut honest_k = None;
    if c.honest {
        if let Ok(k) = pw.w.connect(CLIENT_EP, honest_load(c.victim_client)) {
            honest_k = Some(k);
        }
    }
    let mut r = Run { c, pw, labels: vec![], last_pn: [0; 3], allowed: None, template_sent: false, victim_streams: vec![], victim_closed_locally: false, my_cid_seq: 0, log: vec![], past_auth: false, start_live, sent: Default::default(), data_sent: 0, ncid_seq: 0, ncid_retired: 0, af_seq: 0, retired_victim: Default::default(), unmodelled_input: false, peer_close_possible: false };
    r.pw.start();
    // phases: how far the handshake gets before hostile input starts
    let mut ok = true;
    match c.phase % 3 {
        0 => {
            // right after the first flight has been sent: let it arrive, nothing more
            ok = r.pw.pump(r.pw.w.now + 5_000);
        }
        1 => {
            // until the puppet knows the handshake keys
            for _ in 0..50 {
                if r.pw.p.keys_available(1) {
                    break;
                }
                ok &= r.pw.pump(r.pw.w.now + 5_000);
            }
        }
        _ => {
            ok = r.pw.sync(3_000_000);
            ok &= r.pw.sync(500_000);
        }
    }
    if !ok {
        return CaseOut::inconclusive("step limit");
    }
    if c.phase % 3 == 2 {
        let Some(k) = r.pw.vk else {
            return CaseOut::fail("c03/harness/no-victim-connection", "the victim never created a connection for the puppet".to_string());
        };
        if !r.pw.w.conns[k].app.connected || !r.pw.p.established() {
            // the puppet's parameters in this sub-check are always acceptable
            return CaseOut::fail(
                "c03/harness/handshake",
                format!("handshake with the puppet did not complete: victim connected={} lost={:?} puppet hs={} closed={:?}", r.pw.w.conns[k].app.connected, r.pw.w.conns[k].app.lost, r.pw.p.hs, r.pw.p.closed),
            );
        }
    }
    if let Err(o) = r.settle("handshake") {
        return o;
    }
    for (i, st) in c.steps.iter().enumerate() {
        if let Err(o) = r.step(i, st) {
            return o;
        }
    }
    // let everything drain: the honest connection must finish its workload
    let mut horizon = r.pw.w.now + 20_000_000;
    if c.cfg.idle_ms.is_some() {
        horizon += 30_000_000;
    }
    if c.honest {
        let pa = r.pw.p.addr;
        let _ = pa;
        let mut guard = 0;
        loop {
            guard += 1;
            let done = honest_done(&r.pw.w, r.pw.vk);
            if done || r.pw.w.now >= horizon || guard > 4000 {
                break;
            }
            let until = (r.pw.w.now + 50_000).min(horizon);
            if !r.pw.pump(until) {
                return CaseOut::inconclusive("step limit");
            }
        }
        if let Err(o) = r.settle("drain") {
            return o;
        }
        if !honest_done(&r.pw.w, r.pw.vk) {
            let st: Vec<String> = r.pw.w.conns.iter().enumerate().filter(|(k, _)| Some(*k) != r.pw.vk).map(|(k, cs)| format!("conn {k} {:?} connected={} lost={:?} out_complete={}", cs.side, cs.app.connected, cs.app.lost, cs.app.outgoing_complete())).collect();
            if std::env::var("QV_TRACE").is_ok() {
                eprintln!("{}", r.pw.w.dump_trace(0, 200));
            }
            return CaseOut::fail(
                "c03/isolation/honest-connection-disturbed",
                format!("the honest connection sharing the endpoint did not complete its workload within 20 s of virtual time after the hostile input ended: {st:?}\nlog: {:#?}", r.log),
            );
        }
        let _ = honest_k;
        let v = r.pw.w.collect_violations();
        if let Some(v) = v.first() {
            return CaseOut::fail(v.sig.clone(), format!("{} (honest connection sharing the endpoint)", v.msg));
        }
    }
    if r.pw.w.hit_step_limit {
        return CaseOut::inconclusive("step limit");
    }
    if c.victim_client {
        r.labels.push("victim-client");
    } else {
        r.labels.push("victim-server");
    }
    let closed_by_victim = r.pw.vk.is_some_and(|k| !r.pw.w.conns[k].app.lost.is_empty());
    if closed_by_victim {
        r.labels.push("victim-closed-with-error");
        let code = r.pw.vk.and_then(|k| match r.pw.w.conns[k].app.lost_reasons.first() {
            Some(ConnectionError::TransportError(e)) => Some(u64::from(e.code)),
            _ => None,
        });
        r.labels.push(match code {
            Some(FLOW) => "closed:FLOW_CONTROL_ERROR",
            Some(STREAM_LIMIT) => "closed:STREAM_LIMIT_ERROR",
            Some(STREAM_STATE) => "closed:STREAM_STATE_ERROR",
            Some(FINAL_SIZE) => "closed:FINAL_SIZE_ERROR",
            Some(FRAME_ENCODING) => "closed:FRAME_ENCODING_ERROR",
            Some(TRANSPORT_PARAMETER) => "closed:TRANSPORT_PARAMETER_ERROR",
            Some(CID_LIMIT) => "closed:CONNECTION_ID_LIMIT_ERROR",
            Some(PROTOCOL_VIOLATION) => "closed:PROTOCOL_VIOLATION",
            Some(CRYPTO_BUFFER_EXCEEDED) => "closed:CRYPTO_BUFFER_EXCEEDED",
            Some(c) if c >= 0x100 => "closed:CRYPTO_ERROR",
            Some(_) => "closed:other-transport-error",
            None => "closed:not-a-transport-error",
        });
    }
    let authed = r.pw.vk.map_or(0, |k| r.pw.w.conns[k].c.verif_probe().total_authed_packets);
    r.labels.push(match authed {
        0..=3 => "authed-packets<=3",
        4..=10 => "authed-packets-4..10",
        11..=25 => "authed-packets-11..25",
        _ => "authed-packets>25",
    });
    if c.cfg.ack_freq.is_some() {
        r.labels.push("ack-frequency-on");
    }
    if c.cfg.cid_len == 0 {
        r.labels.push("zero-length-cid");
    }
    r.labels.push(match c.phase % 3 {
        0 => "phase-initial",
        1 => "phase-handshake",
        _ => "phase-established",
    });
    r.labels.sort();
    r.labels.dedup();
    let nontrivial = r.past_auth && (r.template_sent || closed_by_victim || r.labels.contains(&"pkt-1rtt"));
    let summary = serde_json::json!({"injected_dgrams": r.pw.injected_dgrams, "injected_bytes": r.pw.injected_bytes, "closed_by_victim": closed_by_victim,
        "template": r.allowed.as_ref().map(|a| a.0.clone()), "live_heap": crate::alloc_count::live() - start_live});
    CaseOut { verdict: Verdict::Pass, labels: r.labels, nontrivial, summary: Some(summary) }
}

fn honest_done(w: &crate::simnet::World, vk: Option<usize>) -> bool {
    let mut n = 0;
    for (k, cs) in w.conns.iter().enumerate() {
        if Some(k) == vk {
            continue;
        }
        n += 1;
        // an idle timeout after the work is done is fine (the victim's generated idle timeout applies to
        // every connection of its endpoint); any other loss is a disturbance
        let benign_loss = cs.app.lost_reasons.iter().all(|r| matches!(r, ConnectionError::TimedOut));
        if !(cs.app.connected && benign_loss && cs.app.outgoing_complete() && cs.app.recv.values().all(|r| r.terminal.is_some())) {
            return false;
        }
        if cs.app.recv.is_empty() {
            return false;
        }
    }
    n >= 2
}

// ---------------------------------------------------------------------------------------------
// generators
// ---------------------------------------------------------------------------------------------

fn arb_v62() -> impl Strategy<Value = u64> {
    prop_oneof![
        6 => 0u64..64,
        2 => prop_oneof![Just(63u64), Just(64), Just(16383), Just(16384), Just((1 << 30) - 1), Just(1 << 30)],
        2 => prop_oneof![Just((1u64 << 60) - 1), Just(1 << 60), Just((1 << 60) + 1), Just(V62 - 1), Just(V62)],
        2 => 0u64..100_000,
        1 => 0u64..=V62,
    ]
}

fn arb_sid() -> impl Strategy<Value = u64> {
    prop_oneof![8 => 0u64..48, 1 => arb_v62()]
}

fn arb_bytes(max: usize) -> impl Strategy<Value = Vec<u8>> {
    prop_oneof![3 => prop::collection::vec(any::<u8>(), 0..8), 2 => prop::collection::vec(any::<u8>(), 0..max)]
}

fn arb_frame() -> impl Strategy<Value = Frame> {
    prop_oneof![
        2 => Just(Frame::Ping),
        1 => (1usize..40).prop_map(Frame::Padding),
        4 => (arb_v62(), arb_v62(), prop::collection::vec((0u64..2000, 0u64..50), 0..24), prop::option::weighted(0.2, (arb_v62(), arb_v62(), arb_v62()))).prop_map(|(largest, delay, gaps, ecn)| {
            // descending ranges below `largest`, built from (gap, len) pairs; may underflow to nothing
            let mut ranges = vec![];
            let mut hi = largest;
            let mut first = true;
            for (gap, len) in gaps {
                let top = if first { hi } else { match hi.checked_sub(gap + 2) { Some(t) => t, None => break } };
                let lo = top.saturating_sub(len);
                ranges.push((lo, top));
                hi = lo;
                first = false;
            }
            if ranges.is_empty() {
                ranges.push((largest, largest));
            }
            Frame::Ack { largest, delay, ranges, ecn }
        }),
        3 => (arb_sid(), arb_v62(), arb_v62()).prop_map(|(id, code, final_size)| Frame::ResetStream { id, code, final_size }),
        3 => (arb_sid(), arb_v62()).prop_map(|(id, code)| Frame::StopSending { id, code }),
        3 => (arb_v62(), arb_bytes(600)).prop_map(|(offset, data)| Frame::Crypto { offset: offset.min(V62 - data.len() as u64), data }),
        1 => arb_bytes(200).prop_map(|token| Frame::NewToken { token }),
        8 => (arb_sid(), arb_v62(), arb_bytes(900), any::<bool>(), any::<bool>()).prop_map(|(id, offset, data, fin, has_off)| {
            let offset = if has_off { offset.min(V62 - data.len() as u64) } else { 0 };
            Frame::Stream { id, offset, data, fin, has_len: true, has_off }
        }),
        2 => arb_v62().prop_map(Frame::MaxData),
        3 => (arb_sid(), arb_v62()).prop_map(|(id, max)| Frame::MaxStreamData { id, max }),
        2 => (any::<bool>(), arb_v62()).prop_map(|(bidi, max)| Frame::MaxStreams { bidi, max: max.min(1 << 60) }),
        1 => arb_v62().prop_map(Frame::DataBlocked),
        1 => (arb_sid(), arb_v62()).prop_map(|(id, limit)| Frame::StreamDataBlocked { id, limit }),
        1 => (any::<bool>(), arb_v62()).prop_map(|(bidi, limit)| Frame::StreamsBlocked { bidi, limit: limit.min(1 << 60) }),
        5 => (arb_v62(), arb_v62(), 1usize..=20, any::<u64>()).prop_map(|(seq, rpt, len, salt)| {
            let mut cid = Vec::new();
            let mut i = 0;
            while cid.len() < len {
                cid.extend_from_slice(&mix(salt, i).to_le_bytes());
                i += 1;
            }
            cid.truncate(len);
            let mut reset_token = [0u8; 16];
            reset_token[..8].copy_from_slice(&mix(salt, 99).to_le_bytes());
            Frame::NewConnectionId { seq, retire_prior_to: rpt.min(seq), cid, reset_token }
        }),
        3 => arb_v62().prop_map(Frame::RetireConnectionId),
        3 => any::<u64>().prop_map(Frame::PathChallenge),
        2 => any::<u64>().prop_map(Frame::PathResponse),
        1 => Just(Frame::HandshakeDone),
        3 => (arb_v62(), arb_v62(), arb_v62(), arb_v62()).prop_map(|(seq, threshold, max_ack_delay, reordering)| Frame::AckFrequency { seq, threshold, max_ack_delay, reordering }),
        1 => Just(Frame::ImmediateAck),
        3 => (arb_bytes(1100), any::<bool>()).prop_map(|(data, has_len)| Frame::Datagram { data, has_len }),
    ]
}

fn arb_hf() -> impl Strategy<Value = HF> {
    prop_oneof![
        3 => arb_frame().prop_map(HF::Lit),
        20 => arb_frame().prop_map(HF::Legal),
        2 => Just(HF::GoodAck),
        1 => prop::collection::vec(any::<u8>(), 1..40).prop_map(HF::Raw),
        2 => (prop_oneof![0u64..40, arb_v62()], 0u64..1000, prop_oneof![0u64..12, arb_v62()], prop::collection::vec((0u64..8, 0u64..8), 0..6), prop::bool::weighted(0.2)).prop_map(|(largest, delay, first, pairs, ecn)| HF::RawAck { largest, delay, first, pairs, ecn }),
    ]
}

fn arb_tpl() -> impl Strategy<Value = Tpl> {
    prop_oneof![
        (0u8..2, 0u8..8).prop_map(|(space, kind)| Tpl::WrongSpace { space, kind }),
        any::<u16>().prop_map(Tpl::UnknownType),
        (0u8..6, any::<u8>()).prop_map(|(kind, keep)| Tpl::Truncated { kind, keep }),
        (0u8..3, any::<u16>()).prop_map(|(space, ahead)| Tpl::AckUnsent { space, ahead }),
        any::<bool>().prop_map(|reset| Tpl::DataOnSendOnly { reset }),
        any::<bool>().prop_map(|stop| Tpl::CreditOnRecvOnly { stop }),
        (0u8..4, any::<bool>(), 0u8..5).prop_map(|(kind, uni, ahead)| Tpl::UnopenedLocal { kind, uni, ahead }),
        (0u8..4, any::<bool>(), 0u8..3).prop_map(|(kind, uni, ahead)| Tpl::BeyondStreamLimit { kind, uni, ahead }),
        any::<bool>().prop_map(|bidi| Tpl::MaxStreamsHuge { bidi }),
        Just(Tpl::NcidRetirePriorAboveSeq),
        any::<u8>().prop_map(Tpl::NcidBadLen),
        Just(Tpl::NcidOverLimit),
        Just(Tpl::NcidDupSeqOtherCid),
        any::<u16>().prop_map(|ahead| Tpl::RetireUnissued { ahead }),
        Just(Tpl::HandshakeDoneFromClient),
        Just(Tpl::NewTokenFromClient),
        Just(Tpl::NewTokenEmpty),
        Just(Tpl::DatagramNotNegotiated),
        Just(Tpl::StreamOffsetOverflow),
        Just(Tpl::EmptyPayload),
        any::<u8>().prop_map(Tpl::ReservedBits),
        Just(Tpl::CryptoBeyondBuffer),
        Just(Tpl::AckFreqWithoutNegotiation),
        Just(Tpl::FlowControlStream),
        Just(Tpl::FinalSizeChange),
    ]
}

fn arb_vop() -> impl Strategy<Value = VOp> {
    prop_oneof![
        4 => (any::<bool>(), 0u16..3000, any::<bool>()).prop_map(|(uni, n, finish)| VOp::OpenWrite { uni, n, finish }),
        4 => Just(VOp::ReadSome),
        1 => Just(VOp::StopFirst),
        1 => Just(VOp::ResetFirst),
        2 => (0u16..1200).prop_map(VOp::Datagram),
        1 => Just(VOp::Ping),
        1 => Just(VOp::KeyUpdate),
        1 => Just(VOp::SetWindows),
        1 => Just(VOp::Close),
    ]
}

/// A well-formed long header (version 1, any type, connection IDs of 0..20 bytes, short token) whose Length
/// field and body are tiny or inconsistent, padded to a full-size datagram half of the time: reaches the
/// header-protection and first-packet code before anything is authenticated
fn arb_long_shell() -> impl Strategy<Value = Vec<u8>> {
    (0u8..4, prop::collection::vec(any::<u8>(), 0..=20), prop::collection::vec(any::<u8>(), 0..=20), prop::collection::vec(any::<u8>(), 0..3), prop_oneof![3 => 0u16..48, 1 => 48u16..1300], prop::collection::vec(any::<u8>(), 0..48), any::<bool>(), any::<u8>()).prop_map(|(ty, dcid, scid, token, len_field, body, pad, low)| {
        let mut d = vec![0xc0 | (ty << 4) | (low & 0x0f)];
        d.extend_from_slice(&1u32.to_be_bytes());
        d.push(dcid.len() as u8);
        d.extend_from_slice(&dcid);
        d.push(scid.len() as u8);
        d.extend_from_slice(&scid);
        if ty == 0 {
            wire::put_var(&mut d, token.len() as u64);
            d.extend_from_slice(&token);
        }
        if ty != 3 {
            wire::put_var_len(&mut d, len_field as u64, 2);
        }
        d.extend_from_slice(&body);
        if pad && d.len() < 1200 {
            d.resize(1200, 0);
        }
        d
    })
}

fn arb_step() -> impl Strategy<Value = Step> {
    let pn = prop_oneof![10 => Just(PnSel::Next), 1 => Just(PnSel::Dup), 1 => (1u16..2000).prop_map(PnSel::Skip), 1 => arb_v62().prop_map(PnSel::Abs)];
    let m = prop_oneof![
        4 => any::<u16>().prop_map(Mutn::FlipBit),
        2 => any::<u16>().prop_map(Mutn::Truncate),
        1 => any::<u8>().prop_map(Mutn::Extend),
        2 => (0u16..40, any::<u8>()).prop_map(|(i, v)| Mutn::SetByte(i, v)),
        1 => prop_oneof![Just(0u32), Just(2), Just(0x0a0a0a0a), any::<u32>()].prop_map(Mutn::Version),
    ];
    prop_oneof![
        14 => (prop_oneof![1 => Just(0u8), 1 => Just(1u8), 8 => Just(2u8)], prop::collection::vec(arb_hf(), 1..6), pn, prop::bool::weighted(0.05), prop_oneof![Just(0u16), 0u16..1300]).prop_map(|(space, items, pn, other_addr, pad)| Step::Pkt { space, items, pn, other_addr, pad }),
        3 => arb_tpl().prop_map(Step::Template),
        2 => (prop_oneof![2 => prop::collection::vec(any::<u8>(), 1..60), 2 => prop::collection::vec(any::<u8>(), 1200..1300), 3 => arb_long_shell()], any::<bool>()).prop_map(|(bytes, other_addr)| Step::Garbage { bytes, other_addr }),
        2 => (m, any::<bool>()).prop_map(|(m, long_header)| Step::Mutated { m, long_header }),
        5 => arb_vop().prop_map(Step::Victim),
        1 => (0u8..9, 1u16..400).prop_map(|(kind, n)| Step::Flood { kind, n }),
        2 => prop_oneof![1u32..50_000, 50_000u32..3_000_000].prop_map(Step::Wait),
    ]
}

fn arb_cfg() -> impl Strategy<Value = VictimCfg> {
    (
        prop_oneof![2 => Just(None), 2 => (0u32..12, prop_oneof![Just(None), (1u16..200).prop_map(Some)], 0u32..6).prop_map(|(threshold, max_ack_delay_ms, reordering)| Some(AfSpec { threshold, max_ack_delay_ms, reordering }))],
        prop_oneof![3 => Just(8u8), 2 => Just(0u8), 1 => 1u8..=20],
        prop_oneof![1 => Just(None), 3 => (20u16..2000).prop_map(Some)],
        prop_oneof![200u32..4000, 4000u32..100_000],
        prop_oneof![100u32..3000, 3000u32..60_000],
        0u8..6,
        0u8..6,
        prop_oneof![256u16..1000, 1000u16..16384],
        any::<bool>(),
        prop_oneof![3 => Just(None), 1 => (200u16..5000).prop_map(Some)],
    )
        .prop_map(|(ack_freq, cid_len, dgram, recv_window, stream_window, max_bidi, max_uni, crypto_buf, migration, idle_ms)| VictimCfg { ack_freq, cid_len, dgram, recv_window, stream_window, max_bidi, max_uni, crypto_buf, migration, idle_ms })
}

/// Parameters the puppet presents in c03_frames: always acceptable, but unusual
fn arb_ok_tp() -> impl Strategy<Value = PuppetTp> {
    (
        (prop_oneof![0u64..3000, Just(1u64 << 24), Just(V62)], prop_oneof![0u64..3000, Just(1u64 << 20), Just(V62)], prop_oneof![0u64..3000, Just(1u64 << 20)], prop_oneof![0u64..3000, Just(1u64 << 20)]),
        (prop_oneof![0u64..4, Just(64u64), Just(1u64 << 60)], prop_oneof![0u64..4, Just(64u64), Just(1u64 << 60)]),
        prop_oneof![2u64..9, Just(V62)],
        prop_oneof![Just(0u64), 1u64..20_000, Just(V62)],
        prop_oneof![2 => Just(1200u64), 2 => 1200u64..1500, 1 => Just(65527u64), 1 => Just(V62), 2 => 65_528u64..70_000, 1 => prop_oneof![Just(1u64 << 16), Just((1u64 << 16) + 1199), Just((1u64 << 32) + 1300), Just((1u64 << 17) + 400)]],
        prop_oneof![Just(None), Just(Some(0u64)), (1u64..70_000).prop_map(Some), Just(Some(V62))],
        prop_oneof![3 => Just(None), 2 => (0u64..30_000).prop_map(Some), 1 => (30_000u64..16_000_000).prop_map(Some)],
        prop_oneof![3 => Just(None), 1 => (0u64..16384).prop_map(Some)],
        prop_oneof![3 => Just(None), 1 => (0u64..=20).prop_map(Some)],
        any::<bool>(),
    )
        .prop_map(|((max_data, msd_bidi_local, msd_bidi_remote, msd_uni), (max_streams_bidi, max_streams_uni), acid_limit, idle_ms, max_udp, dgram, min_ack_delay_us, max_ack_delay_ms, ack_delay_exponent, disable_migration)| {
            // min_ack_delay must not exceed max_ack_delay (default 25 ms) to be acceptable
            let mad_us = max_ack_delay_ms.unwrap_or(25) * 1000;
            let min_ack_delay_us = min_ack_delay_us.filter(|m| *m <= mad_us);
            PuppetTp { max_data, msd_bidi_local, msd_bidi_remote, msd_uni, max_streams_bidi, max_streams_uni, acid_limit, idle_ms, max_udp, dgram, min_ack_delay_us, max_ack_delay_ms, ack_delay_exponent, disable_migration, extra_raw: vec![], replace_raw: None }
        })
}

pub fn arb_case() -> impl Strategy<Value = Case> {
    (any::<u64>(), prop::bool::weighted(0.4), arb_cfg(), arb_ok_tp(), prop_oneof![3 => Just(8u8), 1 => Just(0u8), 1 => 1u8..=20], prop_oneof![1 => Just(0u8), 1 => Just(1u8), 6 => Just(2u8)], prop::bool::weighted(0.5), prop_oneof![1 => Just(0u8), 3 => 0u8..50], prop::collection::vec(arb_step(), 1..60))
        .prop_map(|(seed, victim_client, cfg, tp, puppet_cid_len, phase, honest, calm, steps)| Case { seed, victim_client, cfg, tp, puppet_cid_len, phase, honest, calm, steps })
}

// ---------------------------------------------------------------------------------------------
// c03_tp: hostile transport parameters
// ---------------------------------------------------------------------------------------------

#[derive(Serialize, Deserialize, Clone, Debug, PartialEq)]
pub enum TpItem {
    Int { id: u64, v: u64, width: u8 },
    Bytes { id: u64, v: Vec<u8> },
    /// length field says `claim`, `v` follows
    BadLen { id: u64, claim: u64, v: Vec<u8> },
    RawTail(Vec<u8>),
    /// the well-formed CID parameters the handshake needs
    Cids,
}

#[derive(Serialize, Deserialize, Clone, Debug, PartialEq)]
pub struct TpCase {
    pub seed: u64,
    pub victim_client: bool,
    pub cfg: VictimCfg,
    pub items: Vec<TpItem>,
    /// packets to exchange when the handshake succeeds
    pub steps: Vec<Step>,
}

fn encode_items(items: &[TpItem], p: &crate::puppet::Puppet) -> Vec<u8> {
    let mut v = Vec::new();
    for it in items {
        match it {
            TpItem::Int { id, v: val, width } => {
                let mut b = Vec::new();
                let w = match width % 5 {
                    0 => wire::var_len(*val),
                    1 => 1,
                    2 => 2,
                    3 => 4,
                    _ => 8,
                };
                let w = w.max(wire::var_len(*val));
                wire::put_var_len(&mut b, *val, w);
                tp_put(&mut v, *id, &b);
            }
            TpItem::Bytes { id, v: val } => tp_put(&mut v, *id, val),
            TpItem::BadLen { id, claim, v: val } => {
                wire::put_var(&mut v, *id);
                wire::put_var(&mut v, *claim);
                v.extend_from_slice(val);
            }
            TpItem::RawTail(b) => v.extend_from_slice(b),
            TpItem::Cids => {
                if p.side.is_server() {
                    tp_put(&mut v, 0x00, &p.odcid);
                }
                tp_put(&mut v, 0x0f, &p.scid);
            }
        }
    }
    v
}

pub fn case_tp(c: &TpCase) -> CaseOut {
    if c.cfg.crypto_buf < 1024 {
        return CaseOut::discard("crypto buffer smaller than the handshake");
    }
    let start_live = crate::alloc_count::live();
    let mut spec = NetSpec::default();
    spec.seed = c.seed;
    let side = if c.victim_client { Side::Client } else { Side::Server };
    if c.victim_client {
        spec.client_tc = victim_tc(&c.cfg);
        spec.client_ep.cid_len = c.cfg.cid_len;
    } else {
        spec.server_tc = victim_tc(&c.cfg);
        spec.server_ep.cid_len = c.cfg.cid_len;
    }
    let mut pw = PW::new(spec, side, c.seed, 8, 8 + (c.seed % 13) as usize, PuppetTp::default());
    pw.w.record = false;
    pw.w.observe = false;
    pw.w.check_amp = false;
    pw.p.log_frames = false;
    if !c.victim_client {
        // client puppet: parameters are known before the first flight
        let raw = encode_items(&c.items, &pw.p);
        pw.p.tp.replace_raw = Some(raw);
    }
    let case_dummy = Case { seed: c.seed, victim_client: c.victim_client, cfg: c.cfg.clone(), tp: PuppetTp::default(), puppet_cid_len: 8, phase: 2, honest: false, calm: 0, steps: vec![] };
    let mut r = Run { c: &case_dummy, pw, labels: vec![], last_pn: [0; 3], allowed: None, template_sent: false, victim_streams: vec![], victim_closed_locally: false, my_cid_seq: 0, log: vec![], past_auth: false, start_live, sent: Default::default(), data_sent: 0, ncid_seq: 0, ncid_retired: 0, af_seq: 0, retired_victim: Default::default(), unmodelled_input: false, peer_close_possible: false };
    r.pw.start();
    if c.victim_client {
        // server puppet: the original DCID is known once the victim's Initial arrived; the encoded
        // parameters are fixed at that moment (respond() reads tp_bytes() when it builds the flight)
        // -> run until the ClientHello is in the sink, then set the parameters, then serve it
        let pa = r.pw.p.addr;
        let ok = r.pw.w.run(r.pw.w.now + 100_000, |w| !w.sinks[&pa].is_empty());
        if !ok {
            return CaseOut::inconclusive("step limit");
        }
        // peek at the first Initial to learn the CIDs
        if let Some((_, _, bytes)) = r.pw.w.sinks[&pa].first().cloned() {
            if let Some(Ok(p0)) = wire::decode_datagram(&bytes, 8).into_iter().next() {
                r.pw.p.odcid = p0.dcid.clone();
            }
        }
        let raw = encode_items(&c.items, &r.pw.p);
        r.pw.p.tp.replace_raw = Some(raw);
    }
    if !r.pw.sync(3_000_000) {
        return CaseOut::inconclusive("step limit");
    }
    r.pw.sync(500_000);
    // any rejection of the parameters must be a TRANSPORT_PARAMETER_ERROR (or a refusal before a
    // connection exists)
    r.allowed = Some(("hostile transport parameters".into(), vec![TRANSPORT_PARAMETER, PROTOCOL_VIOLATION]));
    if let Err(o) = r.settle("handshake with generated transport parameters") {
        return o;
    }
    let connected = r.pw.vk.is_some_and(|k| r.pw.w.conns[k].app.connected) && r.pw.p.established();
    if connected {
        r.labels.push("parameters-accepted");
        r.allowed = None;
        for (i, st) in c.steps.iter().enumerate() {
            if let Err(o) = r.step(i, st) {
                return o;
            }
        }
        // some traffic from the victim so that pacing/ack-frequency/idle logic runs with the parameters
        r.victim_op(&VOp::OpenWrite { uni: true, n: 2000, finish: true });
        r.victim_op(&VOp::Ping);
        if let Err(o) = r.settle("post-handshake exchange") {
            return o;
        }
        let until = r.pw.w.now + 400_000;
        if !r.pw.pump(until) {
            return CaseOut::inconclusive("step limit");
        }
        if let Err(o) = r.settle("post-handshake exchange") {
            return o;
        }
    } else {
        r.labels.push("parameters-rejected");
    }
    if c.victim_client {
        r.labels.push("victim-client");
    } else {
        r.labels.push("victim-server");
    }
    r.labels.sort();
    r.labels.dedup();
    let nontrivial = r.pw.p.rx_datagrams > 0 && c.items.len() > 1;
    CaseOut { verdict: Verdict::Pass, labels: r.labels, nontrivial, summary: Some(serde_json::json!({"connected": connected, "items": c.items.len(), "closed": format!("{:?}", r.pw.p.closed)})) }
}

fn arb_tp_item() -> impl Strategy<Value = TpItem> {
    let known_int = prop_oneof![Just(0x01u64), Just(0x03), Just(0x04), Just(0x05), Just(0x06), Just(0x07), Just(0x08), Just(0x09), Just(0x0a), Just(0x0b), Just(0x0e), Just(0x20), Just(0xff04de1bu64)];
    let any_id = prop_oneof![6 => 0u64..0x22, 1 => Just(0xff04de1bu64), 1 => (0u64..1000).prop_map(|n| 27 + 31 * n), 1 => arb_v62()];
    prop_oneof![
        12 => (known_int, prop_oneof![arb_v62(), 0u64..30, Just(1199u64), Just(1200), Just(65527), Just(65528), Just(16383), Just(16384), Just(20), Just(21)], 0u8..5).prop_map(|(id, v, width)| TpItem::Int { id, v, width }),
        3 => (any_id.clone(), arb_bytes(40)).prop_map(|(id, v)| TpItem::Bytes { id, v }),
        1 => (any_id, arb_v62(), arb_bytes(20)).prop_map(|(id, claim, v)| TpItem::BadLen { id, claim, v }),
        1 => arb_bytes(12).prop_map(TpItem::RawTail),
        // server-only / structured parameters
        1 => arb_bytes(20).prop_map(|v| TpItem::Bytes { id: 0x02, v }),
        1 => prop::collection::vec(any::<u8>(), 41..62).prop_map(|v| TpItem::Bytes { id: 0x0d, v }),
        1 => Just(TpItem::Bytes { id: 0x0c, v: vec![] }),
        1 => arb_bytes(20).prop_map(|v| TpItem::Bytes { id: 0x10, v }),
    ]
}

/// A list that quinn must accept: every known integer parameter at most once, with a value inside its
/// legal range (boundary-biased)
fn arb_tp_base() -> impl Strategy<Value = Vec<TpItem>> {
    let any_v = || prop_oneof![arb_v62(), 0u64..100_000];
    (
        (prop::option::weighted(0.6, any_v()), prop::option::weighted(0.6, prop_oneof![Just(1200u64), 1200u64..70_000, arb_v62().prop_map(|v| v.max(1200))])),
        (prop::option::weighted(0.7, any_v()), prop::option::weighted(0.7, any_v()), prop::option::weighted(0.7, any_v()), prop::option::weighted(0.7, any_v())),
        (prop::option::weighted(0.7, prop_oneof![0u64..200, Just(1u64 << 60)]), prop::option::weighted(0.7, prop_oneof![0u64..200, Just(1u64 << 60)])),
        (prop::option::weighted(0.4, 0u64..=20), prop::option::weighted(0.4, prop_oneof![0u64..100, Just(16383u64)])),
        prop::option::weighted(0.7, prop_oneof![Just(2u64), 2u64..20, arb_v62().prop_map(|v| v.max(2))]),
        prop::option::weighted(0.6, any_v()),
        prop::option::weighted(0.5, prop_oneof![0u64..30_000, 0u64..16_000_000]),
        any::<u64>(),
    )
        .prop_map(|((idle, udp), (md, a, b2, c2), (sb, su), (ade, mad), acid, dg, minad, shuffle)| {
            let mut v = vec![];
            let mut put = |id: u64, x: Option<u64>| {
                if let Some(x) = x {
                    v.push(TpItem::Int { id, v: x, width: 0 });
                }
            };
            put(0x01, idle);
            put(0x03, udp);
            put(0x04, md);
            put(0x05, a);
            put(0x06, b2);
            put(0x07, c2);
            put(0x08, sb);
            put(0x09, su);
            put(0x0a, ade);
            put(0x0b, mad);
            put(0x0e, acid);
            put(0x20, dg);
            // min_ack_delay must not exceed max_ack_delay
            let mad_us = mad.unwrap_or(25) * 1000;
            put(0xff04de1b, minad.filter(|m| *m <= mad_us));
            v.push(TpItem::Cids);
            // deterministic shuffle
            let n = v.len();
            for i in (1..n).rev() {
                let j = (mix(shuffle, i as u64) % (i as u64 + 1)) as usize;
                v.swap(i, j);
            }
            v
        })
}

pub fn arb_tp_case() -> impl Strategy<Value = TpCase> {
    let from_base = (arb_tp_base(), prop::collection::vec((arb_tp_item(), any::<bool>(), any::<prop::sample::Index>()), 0..3)).prop_map(|(mut base, edits)| {
        for (e, replace, at) in edits {
            let eid = match &e {
                TpItem::Int { id, .. } | TpItem::Bytes { id, .. } | TpItem::BadLen { id, .. } => Some(*id),
                _ => None,
            };
            if replace {
                if let Some(eid) = eid {
                    base.retain(|b| !matches!(b, TpItem::Int { id, .. } if *id == eid));
                }
            }
            let i = at.index(base.len() + 1);
            base.insert(i, e);
        }
        base
    });
    let soup = (prop::collection::vec(arb_tp_item(), 0..14), prop::bool::weighted(0.9), any::<prop::sample::Index>()).prop_map(|(mut items, cids, at)| {
        if cids {
            let i = at.index(items.len() + 1);
            items.insert(i, TpItem::Cids);
        }
        items
    });
    (any::<u64>(), prop::bool::weighted(0.5), arb_cfg(), prop_oneof![4 => from_base, 1 => soup], prop::collection::vec(arb_step(), 0..8)).prop_map(|(seed, victim_client, mut cfg, items, steps)| {
        cfg.crypto_buf = cfg.crypto_buf.max(2048);
        TpCase { seed, victim_client, cfg, items, steps }
    })
}

// ---------------------------------------------------------------------------------------------
// libFuzzer entry points (coverage-guided extension of the thorough tier, see bin/fuzz)
// ---------------------------------------------------------------------------------------------

fn fuzz_cfg(sel: u8) -> VictimCfg {
    let base = VictimCfg { ack_freq: None, cid_len: 8, dgram: Some(1200), recv_window: 20_000, stream_window: 6_000, max_bidi: 3, max_uni: 3, crypto_buf: 4096, migration: true, idle_ms: None };
    match sel % 4 {
        0 => base,
        1 => VictimCfg { ack_freq: Some(AfSpec { threshold: 3, max_ack_delay_ms: Some(40), reordering: 2 }), ..base },
        2 => VictimCfg { cid_len: 0, dgram: None, recv_window: 600, stream_window: 300, max_bidi: 1, max_uni: 0, crypto_buf: 700, ..base },
        _ => VictimCfg { ack_freq: Some(AfSpec { threshold: 0, max_ack_delay_ms: None, reordering: 0 }), cid_len: 20, idle_ms: Some(800), ..base },
    }
}

/// Decode a fuzzer input into a `Case`: byte 0 = role, phase and victim configuration; then records
/// `[ctl][len][len bytes]` — a packet whose frame area is exactly those bytes (space, packet-number
/// choice, source address and a leading genuine ACK chosen by `ctl`), or, for `ctl >= 0xc0`, a victim
/// operation / a wait. The case is a pure function of the bytes.
pub fn fuzz_decode_frames(data: &[u8]) -> Option<Case> {
    let (&b0, mut rest) = data.split_first()?;
    let mut steps = vec![];
    while let Some((&ctl, r)) = rest.split_first() {
        let Some((&len, r)) = r.split_first() else { break };
        let n = (len as usize).min(r.len());
        let (body, r) = r.split_at(n);
        rest = r;
        if ctl >= 0xc0 {
            let a = body.first().copied().unwrap_or(0);
            let n16 = u16::from_le_bytes([body.get(1).copied().unwrap_or(0), body.get(2).copied().unwrap_or(0)]);
            steps.push(match ctl & 0x0f {
                0 => Step::Victim(VOp::OpenWrite { uni: a & 1 != 0, n: n16 % 3000, finish: a & 2 != 0 }),
                1 => Step::Victim(VOp::ReadSome),
                2 => Step::Victim(VOp::StopFirst),
                3 => Step::Victim(VOp::ResetFirst),
                4 => Step::Victim(VOp::Datagram(n16 % 1200)),
                5 => Step::Victim(VOp::Ping),
                6 => Step::Victim(VOp::KeyUpdate),
                7 => Step::Victim(VOp::SetWindows),
                8 => Step::Victim(VOp::Close),
                9 => Step::Garbage { bytes: body.to_vec(), other_addr: a & 1 != 0 },
                _ => Step::Wait(1 + n16 as u32 * 40),
            });
            continue;
        }
        let space = match ctl & 3 {
            3 => 0,
            2 => 1,
            _ => 2,
        };
        let pn = match (ctl >> 3) & 3 {
            1 => PnSel::Dup,
            2 => PnSel::Skip(1 + (ctl >> 6) as u16 * 700),
            _ => PnSel::Next,
        };
        let mut items = vec![];
        if ctl & 0x20 != 0 {
            items.push(HF::GoodAck);
        }
        items.push(HF::Raw(body.to_vec()));
        steps.push(Step::Pkt { space, items, pn, other_addr: ctl & 4 != 0, pad: 0 });
        if steps.len() >= 64 {
            break;
        }
    }
    if steps.is_empty() {
        return None;
    }
    Some(Case { seed: 0xf022 + (b0 >> 5) as u64, victim_client: b0 & 1 != 0, cfg: fuzz_cfg(b0 >> 3), tp: PuppetTp::default(), puppet_cid_len: 8, phase: if b0 & 6 == 6 { 0 } else if b0 & 6 == 4 { 1 } else { 2 }, honest: false, calm: 0, steps })
}

/// Transport parameters straight from the fuzzer: the genuine CID parameters followed by the bytes
pub fn fuzz_decode_tp(data: &[u8]) -> Option<TpCase> {
    let (&b0, rest) = data.split_first()?;
    let mut cfg = fuzz_cfg(b0 >> 3);
    cfg.crypto_buf = cfg.crypto_buf.max(2048);
    let items = if b0 & 2 != 0 { vec![TpItem::RawTail(rest.to_vec()), TpItem::Cids] } else { vec![TpItem::Cids, TpItem::RawTail(rest.to_vec())] };
    Some(TpCase { seed: 0xf023, victim_client: b0 & 1 != 0, cfg, items, steps: vec![Step::Pkt { space: 2, items: vec![HF::Lit(Frame::Ping)], pn: PnSel::Next, other_addr: false, pad: 0 }] })
}

fn fuzz_judge<T: Serialize>(check: &str, c: &T, out: Result<CaseOut, PanicInfo>) {
    static KNOWN: std::sync::OnceLock<Vec<String>> = std::sync::OnceLock::new();
    let known = KNOWN.get_or_init(|| load_known().into_iter().filter(|k| k.property == "C03" && k.status == "known").map(|k| k.signature).collect());
    let out = match out {
        Ok(o) => o,
        Err(p) => panic_to_case(p, true),
    };
    match out.verdict {
        Verdict::Fail { sig, msg } if !known.iter().any(|k| *k == sig) => {
            let scenario = serde_json::to_value(c).unwrap_or(serde_json::Value::Null);
            let h = hash64(&scenario.to_string()) & 0xffff_ffff_ffff;
            let dir = std::path::PathBuf::from(verif_root()).join("replays");
            let _ = std::fs::create_dir_all(&dir);
            let path = dir.join(format!("C03-fuzz-{h:012x}.json"));
            let f = Failure { property: "C03".into(), check: check.into(), sig: sig.clone(), msg: msg.clone(), scenario };
            let _ = std::fs::write(&path, serde_json::to_string_pretty(&f).unwrap_or_default());
            println!("VIOLATION property=C03 replay={}", path.display());
            panic!("C03 violation {sig}\n{msg}\nreplay: {}", path.display());
        }
        Verdict::Inconclusive(m) if m.starts_with("harness panic") => {
            // a harness limitation, never an alarm: say so once and go on
            static SAID: std::sync::Once = std::sync::Once::new();
            SAID.call_once(|| eprintln!("INCONCLUSIVE (harness): {m}"));
        }
        _ => {}
    }
}

pub fn fuzz_oracle(tp: bool, data: &[u8]) {
    static HOOK: std::sync::Once = std::sync::Once::new();
    HOOK.call_once(install_panic_hook);
    if data.len() > 4096 {
        return;
    }
    if tp {
        if let Some(c) = fuzz_decode_tp(data) {
            let out = catch(|| case_tp(&c));
            fuzz_judge("c03_tp", &c, out);
        }
    } else if let Some(c) = fuzz_decode_frames(data) {
        let out = catch(|| case(&c));
        fuzz_judge("c03_frames", &c, out);
    }
}

pub fn run(report: &Report) -> i32 {
    report.assume("the puppet peer (puppet.rs), the independent codec (wire.rs) and the SimCrypto key schedule are correct; hostile input is authenticated with SimCrypto keys only (rustls sessions cannot be driven by the puppet)");
    report.assume("error classes are asserted for template violations whose class RFC 9000/9221 fixes; for other generated frames any defined transport error code except INTERNAL_ERROR is accepted");
    run_prop(
        report,
        "c03_frames",
        "proptest-generated scripts for a harness-written authenticated hostile peer in both roles: packets in all three spaces with 1-5 grammar-generated frames (boundary-biased ids/offsets/limits/sequence numbers incl. 2^60 and 2^62-1, ACK ranges, NEW_CONNECTION_ID/RETIRE_CONNECTION_ID, PATH_*, ACK_FREQUENCY, DATAGRAM, CRYPTO, raw bytes), duplicated/skipped/huge packet numbers, packets from another address, garbage and mutated genuine datagrams, 25 template violations with prescribed error class, victim application operations; victim configurations: ack-frequency on/off, CID length 0..20, datagrams on/off, small limits, idle timeout; an honest connection shares the endpoint in half of the cases; non-trivial = input processed past authentication AND (template violation sent OR victim closed with an error OR 1-RTT hostile packets)",
        arb_case,
        report.cases(300_000, 12_000_000),
        case,
    );
    run_prop(
        report,
        "c03_tp",
        "proptest-generated transport parameter lists presented by the puppet in both roles (every known integer id with boundary values and all encodable widths, duplicates, wrong lengths, unknown/grease ids, server-only ids, preferred_address blobs, raw tails, with or without the CID parameters), followed by a short exchange when accepted; non-trivial = the victim answered and more than one parameter was presented",
        arb_tp_case,
        report.cases(200_000, 6_000_000),
        case_tp,
    );
    report.finish("generated-input search (proptest) with an authenticated hostile puppet peer; oracles: no panic/hang, bounded state, error class, isolation of an honest connection")
}
