//! C19 — the UDP layer preserves datagram boundaries, payload and metadata.
//!
//! Engine E6: real loopback sockets driven through the public `quinn-udp` API only
//! (`UdpSocketState::{new, try_send, send, recv, max_gso_segments, gro_segments}`), one scenario at
//! a time per worker thread, each scenario on its own freshly created socket pair, the receiver
//! drained completely before the scenario ends. Loopback delivers synchronously inside `sendmsg`
//! (softirq on the sending CPU), so what a scenario sent is queued at the receiver when `try_send`
//! returns; the drain loop nevertheless waits up to a bounded deadline and a scenario whose
//! datagrams are missing is repeated on fresh sockets (3 attempts, growing deadlines) before the
//! absence counts.
//!
//! What is decided here
//! * every segment of a transmit arrives as one datagram with identical bytes: the receive side is
//!   reassembled by cutting every `RecvMeta::len` into `stride`-sized pieces (short tail allowed)
//!   and the piece sequence must equal the segment sequence;
//! * `meta.ecn`, `meta.addr` (IPv4-mapped form on IPv6 sockets), `meta.dst_ip` are what the
//!   transmit described; `0 < stride <= len <= buffer size`; nothing arrives that was not sent;
//! * `try_send`/`send` returning `Ok` for a transmit this kernel accepts implies arrival; a
//!   rejection of a transmit that is inside the kernel's documented limits is reported as well
//!   (the limits are modelled below, see `os_rejects`);
//! * control-message encoding/decoding: every option combination (ECN x src_ip x GSO x family) is
//!   enumerated; a panic from the encoder's bounds assertions is a violation; silent corruption is
//!   only visible through its effect on the wire (an ASan build is the complement, see NOTES).
//!
//! Receive buffers: the kernel truncates a datagram that does not fit its buffer, and with UDP_GRO
//! enabled (the library always enables it) the unit handed to `recvmsg` is the *coalesced* batch.
//! The library's contract therefore requires every buffer to hold the largest unit the kernel may
//! deliver; on loopback only a GSO transmit is ever coalesced, so the generator sizes every buffer
//! to at least `len` for an offloaded transmit and to at least one datagram otherwise ("exactly one
//! segment" is used where it is legitimate: plain and caller-split sends).

use crate::core::*;
use proptest::prelude::*;
use quinn_udp::{EcnCodepoint, RecvMeta, Transmit, UdpSockRef, UdpSocketState, BATCH_SIZE};
use serde::{Deserialize, Serialize};
use serde_json::json;
use std::collections::BTreeMap;
use std::io::{self, IoSliceMut};
use std::net::{IpAddr, Ipv4Addr, Ipv6Addr, SocketAddr, UdpSocket};
use std::sync::OnceLock;
use std::time::{Duration, Instant};

// ---------------------------------------------------------------------------------------------
// Scenario
// ---------------------------------------------------------------------------------------------

#[derive(Serialize, Deserialize, Debug, Clone, Copy, PartialEq, Eq, PartialOrd, Ord)]
pub enum Family {
    /// IPv4 sender -> IPv4 receiver
    V4,
    /// IPv6-only sender -> IPv6 receiver
    V6,
    /// IPv4 sender -> dual-stack IPv6 receiver (the peer appears IPv4-mapped)
    V4ToDual,
    /// IPv6 sender -> dual-stack IPv6 receiver
    V6ToDual,
    /// dual-stack IPv6 sender, IPv4-mapped destination -> IPv4 receiver
    DualToV4,
    /// dual-stack IPv6 sender, IPv4-mapped destination -> dual-stack IPv6 receiver
    DualToDual,
}

pub const FAMILIES: [Family; 6] =
    [Family::V4, Family::V6, Family::V4ToDual, Family::V6ToDual, Family::DualToV4, Family::DualToDual];

impl Family {
    /// Whether the datagram travels as IPv6 on the wire
    fn v6_wire(self) -> bool {
        matches!(self, Family::V6 | Family::V6ToDual)
    }
    fn sender_dual(self) -> bool {
        matches!(self, Family::DualToV4 | Family::DualToDual)
    }
    fn receiver_dual(self) -> bool {
        matches!(self, Family::V4ToDual | Family::V6ToDual | Family::DualToDual)
    }
    /// Whether the receiving socket is an AF_INET6 socket (addresses are reported in IPv6 form)
    fn receiver_v6_socket(self) -> bool {
        !matches!(self, Family::V4 | Family::DualToV4)
    }
    fn name(self) -> &'static str {
        match self {
            Family::V4 => "v4->v4",
            Family::V6 => "v6->v6",
            Family::V4ToDual => "v4->dual",
            Family::V6ToDual => "v6->dual",
            Family::DualToV4 => "dual(mapped dst)->v4",
            Family::DualToDual => "dual(mapped dst)->dual",
        }
    }
}

#[derive(Serialize, Deserialize, Debug, Clone, Copy, PartialEq, Eq)]
pub enum Ecn {
    None,
    Ect0,
    Ect1,
    Ce,
}

pub const ECNS: [Ecn; 4] = [Ecn::None, Ecn::Ect0, Ecn::Ect1, Ecn::Ce];

impl Ecn {
    fn rotated(self, by: usize) -> Ecn {
        let i = ECNS.iter().position(|&x| x == self).unwrap();
        ECNS[(i + by) % 4]
    }
    fn get(self) -> Option<EcnCodepoint> {
        match self {
            Ecn::None => None,
            Ecn::Ect0 => Some(EcnCodepoint::Ect0),
            Ecn::Ect1 => Some(EcnCodepoint::Ect1),
            Ecn::Ce => Some(EcnCodepoint::Ce),
        }
    }
}

/// `Transmit::src_ip`
#[derive(Serialize, Deserialize, Debug, Clone, Copy, PartialEq, Eq)]
pub enum Src {
    /// not given: the kernel chooses (bound address, or the route's preferred source)
    None,
    /// the address the kernel would choose anyway (127.0.0.1 / ::1)
    Local,
    /// a different local address (127.0.0.2; a global IPv6 address of this host when there is one):
    /// only this variant can tell whether the request was honoured
    Alt,
}

pub const SRCS: [Src; 3] = [Src::None, Src::Local, Src::Alt];

#[derive(Serialize, Deserialize, Debug, Clone, PartialEq, Eq)]
pub struct Scenario {
    /// key of the payload bytes: byte at offset `o` is a function of `(id, o)`
    pub id: u64,
    pub family: Family,
    /// sender bound to the wildcard address instead of the loopback address
    pub wild_sender: bool,
    /// destination is a second local address (127.0.0.3 / the host's global IPv6 address) and the
    /// receiver is bound to the wildcard address: makes `dst_ip` discriminating
    pub dst_alt: bool,
    pub ecn: Ecn,
    pub src: Src,
    /// dual-stack senders only: give `src_ip` in IPv4-mapped IPv6 form instead of IPv4 form
    pub src_mapped: bool,
    /// number of datagrams
    pub count: u32,
    /// size of every datagram but the last
    pub seg: u32,
    /// size of the last datagram, `1..=seg` (`== seg` when `count == 1`)
    pub last: u32,
    /// `None`: `segment_size: None` where that is possible (single datagrams, split pieces);
    /// `Some(x)`: `segment_size: Some(seg + x)` for single datagrams and split pieces, i.e. a declared
    /// segment size at or above the contents length. Offloaded transmits always say `Some(seg)`.
    pub decl_extra: Option<u32>,
    /// the caller splits the batch itself: one `Transmit` per datagram, sent back to back
    pub split: bool,
    /// use `send` (errors logged and swallowed) instead of `try_send`
    pub via_send: bool,
    /// caller-split only: datagram `i` carries the `i`-th codepoint after `ecn` in the cycle
    /// None, Ect0, Ect1, Ce, so that one receive batch holds messages with different metadata
    #[serde(default)]
    pub ecn_rotate: bool,
    /// one entry per receive buffer: bytes in addition to the minimum size (see module docs)
    pub bufs: Vec<u32>,
}

impl Scenario {
    fn len(&self) -> usize {
        self.seg as usize * (self.count as usize - 1) + self.last as usize
    }
    /// One `Transmit` carrying several datagrams
    fn offloaded(&self) -> bool {
        self.count > 1 && !self.split
    }
    fn validate(&self) -> Result<(), String> {
        if self.count == 0 || self.count > 128 {
            return Err("count out of range".into());
        }
        if self.seg == 0 || self.last == 0 || self.last > self.seg {
            return Err("need 1 <= last <= seg".into());
        }
        if self.count == 1 && self.seg != self.last {
            return Err("single datagram: seg must equal last".into());
        }
        if self.len() > 70_000 {
            return Err("payload beyond anything UDP can carry".into());
        }
        if self.bufs.is_empty() || self.bufs.len() > 2 * BATCH_SIZE {
            return Err("buffer count out of range".into());
        }
        Ok(())
    }
}

// ---------------------------------------------------------------------------------------------
// Environment (probed once)
// ---------------------------------------------------------------------------------------------

#[derive(Debug, Clone)]
pub struct Env {
    pub lo_mtu: usize,
    /// a global-scope IPv6 address of this host that can be used as source and destination
    pub alt6: Option<Ipv6Addr>,
    pub v6: bool,
    pub max_gso: usize,
    pub gro: usize,
}

const ALT4_SRC: Ipv4Addr = Ipv4Addr::new(127, 0, 0, 2);
const ALT4_DST: Ipv4Addr = Ipv4Addr::new(127, 0, 0, 3);
/// UDP_MAX_SEGMENTS of this kernel generation (6.x: 128). Only used to provoke the fallback.
const OVER_KERNEL_SEGMENTS: usize = 300;

pub fn env() -> &'static Env {
    static ENV: OnceLock<Env> = OnceLock::new();
    ENV.get_or_init(|| {
        let lo_mtu = std::fs::read_to_string("/sys/class/net/lo/mtu")
            .ok()
            .and_then(|s| s.trim().parse().ok())
            .unwrap_or(65536);
        let v6 = mk_socket(SocketAddr::new(Ipv6Addr::LOCALHOST.into(), 0), None).is_ok();
        let mut alt6 = None;
        if v6 {
            if let Ok(s) = std::fs::read_to_string("/proc/net/if_inet6") {
                for l in s.lines() {
                    let f: Vec<&str> = l.split_whitespace().collect();
                    // address, ifindex, prefix len, scope (00 = global), flags, name
                    if f.len() >= 6 && f[3] == "00" && f[0].len() == 32 {
                        if let Ok(x) = u128::from_str_radix(f[0], 16) {
                            let a = Ipv6Addr::from(x);
                            if mk_socket(SocketAddr::new(a.into(), 0), None).is_ok() && probe_alt6(a) {
                                alt6 = Some(a);
                                break;
                            }
                        }
                    }
                }
            }
        }
        let (max_gso, gro) = match mk_end(SocketAddr::new(Ipv4Addr::LOCALHOST.into(), 0), None) {
            Ok(e) => (e.state.max_gso_segments(), e.state.gro_segments()),
            Err(_) => (1, 1),
        };
        Env { lo_mtu, alt6, v6, max_gso, gro }
    })
}

/// The alternative IPv6 address is only used when a plain std round trip with it behaves as the
/// address model below assumes (reachable over loopback, source address selection = destination).
fn probe_alt6(a: Ipv6Addr) -> bool {
    let go = || -> io::Result<bool> {
        let r = mk_socket(SocketAddr::new(Ipv6Addr::UNSPECIFIED.into(), 0), Some(true))?;
        let s = mk_socket(SocketAddr::new(Ipv6Addr::UNSPECIFIED.into(), 0), Some(true))?;
        r.set_read_timeout(Some(Duration::from_millis(200)))?;
        let port = r.local_addr()?.port();
        s.send_to(b"probe", SocketAddr::new(a.into(), port))?;
        let mut b = [0u8; 16];
        let (n, from) = r.recv_from(&mut b)?;
        Ok(n == 5 && from.ip() == IpAddr::V6(a))
    };
    go().unwrap_or(false)
}

fn mk_socket(bind: SocketAddr, only_v6: Option<bool>) -> io::Result<UdpSocket> {
    use socket2::{Domain, Protocol, Socket, Type};
    let s = Socket::new(Domain::for_address(bind), Type::DGRAM, Some(Protocol::UDP))?;
    if let (true, Some(o)) = (bind.is_ipv6(), only_v6) {
        s.set_only_v6(o)?;
    }
    s.bind(&bind.into())?;
    Ok(s.into())
}

struct End {
    sock: UdpSocket,
    state: UdpSocketState,
    local: SocketAddr,
}

fn mk_end(bind: SocketAddr, only_v6: Option<bool>) -> io::Result<End> {
    let sock = mk_socket(bind, only_v6)?;
    let state = UdpSocketState::new(UdpSockRef::from(&sock))?;
    let local = sock.local_addr()?;
    Ok(End { sock, state, local })
}

// ---------------------------------------------------------------------------------------------
// Plan: everything that follows from a scenario before a socket is touched
// ---------------------------------------------------------------------------------------------

struct Plan {
    payload: Vec<u8>,
    /// (offset, len) of every datagram
    segs: Vec<(usize, usize)>,
    sender_bind: SocketAddr,
    sender_only_v6: Option<bool>,
    receiver_bind: SocketAddr,
    receiver_only_v6: Option<bool>,
    /// destination IP as given in `Transmit::destination`
    dst_ip: IpAddr,
    src_ip: Option<IpAddr>,
    /// source IP the receiver must report, in the form the receiving socket uses
    expect_from: IpAddr,
    /// destination IP the receiver must report, in the form the receiving socket uses
    expect_dst: IpAddr,
    buf_sizes: Vec<usize>,
    /// this kernel refuses the transmit (errno name), per the limits documented in `os_rejects`
    rejected: Option<&'static str>,
    /// whether the wire protocol is IPv4 (ECN travels in IP_TOS)
    v4_wire: bool,
    alt_src_effective: bool,
    alt_dst_effective: bool,
}

fn mapped(ip: IpAddr) -> IpAddr {
    match ip {
        IpAddr::V4(a) => IpAddr::V6(a.to_ipv6_mapped()),
        x => x,
    }
}

fn payload_bytes(id: u64, len: usize) -> Vec<u8> {
    let mut out = Vec::with_capacity(len + 8);
    let mut i = 0u64;
    while out.len() < len {
        out.extend_from_slice(&mix(id ^ 0xc19, i).to_le_bytes());
        i += 1;
    }
    out.truncate(len);
    out
}

/// Limits of the Linux UDP stack that make a send fail no matter how it is encoded:
/// * a datagram (or an offloaded batch) longer than 65535 - 8 - IP header bytes: EMSGSIZE;
/// * with fragmentation forbidden (the library sets IP_PMTUDISC_PROBE / IPV6_DONTFRAG) a single
///   datagram longer than the loopback MTU minus headers: EMSGSIZE;
/// * UDP_SEGMENT: segment + headers above the MTU, or more than UDP_MAX_SEGMENTS segments: EINVAL.
fn os_rejects(v: &Scenario, e: &Env) -> Option<&'static str> {
    let hdr = if v.family.v6_wire() { 48 } else { 28 };
    let max_total = 65535 - hdr;
    let max_single = max_total.min(e.lo_mtu.saturating_sub(hdr));
    if v.offloaded() {
        if v.len() > max_total {
            return Some("EMSGSIZE");
        }
        if v.seg as usize + hdr > e.lo_mtu || v.count as usize > 128 {
            return Some("EINVAL");
        }
        None
    } else if v.seg as usize > max_single {
        Some("EMSGSIZE")
    } else {
        None
    }
}

impl Plan {
    fn new(v: &Scenario, e: &Env) -> Plan {
        let len = v.len();
        let payload = payload_bytes(v.id, len);
        let mut segs = vec![];
        let mut off = 0;
        for i in 0..v.count as usize {
            let l = if i + 1 == v.count as usize { v.last as usize } else { v.seg as usize };
            segs.push((off, l));
            off += l;
        }
        let f = v.family;
        let v4_wire = !f.v6_wire();
        let lo4: IpAddr = Ipv4Addr::LOCALHOST.into();
        let lo6: IpAddr = Ipv6Addr::LOCALHOST.into();
        let any4: IpAddr = Ipv4Addr::UNSPECIFIED.into();
        let any6: IpAddr = Ipv6Addr::UNSPECIFIED.into();

        // destination (canonical = unmapped) and receiver binding
        let alt_dst_effective = v.dst_alt && (v4_wire || e.alt6.is_some());
        let dst_canon: IpAddr = match (v4_wire, alt_dst_effective) {
            (true, false) => lo4,
            (true, true) => ALT4_DST.into(),
            (false, false) => lo6,
            (false, true) => e.alt6.unwrap().into(),
        };
        let (receiver_bind, receiver_only_v6) = if f.receiver_dual() {
            (SocketAddr::new(any6, 0), Some(false))
        } else if f.receiver_v6_socket() {
            (SocketAddr::new(if alt_dst_effective { any6 } else { lo6 }, 0), Some(true))
        } else {
            (SocketAddr::new(if alt_dst_effective { any4 } else { lo4 }, 0), None)
        };
        let dst_ip = if f.sender_dual() { mapped(dst_canon) } else { dst_canon };

        // sender binding and source
        let alt_src_effective = v.src == Src::Alt && (v4_wire || e.alt6.is_some());
        let wild = v.wild_sender || f.sender_dual();
        let (sender_bind, sender_only_v6) = if f.sender_dual() {
            (SocketAddr::new(any6, 0), Some(false))
        } else if v4_wire {
            (SocketAddr::new(if wild { any4 } else { lo4 }, 0), None)
        } else {
            (SocketAddr::new(if wild { any6 } else { lo6 }, 0), Some(true))
        };
        let src_canon: Option<IpAddr> = match v.src {
            Src::None => None,
            Src::Local => Some(if v4_wire { lo4 } else { lo6 }),
            Src::Alt => Some(match (v4_wire, e.alt6) {
                (true, _) => ALT4_SRC.into(),
                (false, Some(a)) => a.into(),
                (false, None) => lo6,
            }),
        };
        let src_ip = src_canon.map(|ip| if f.sender_dual() && v.src_mapped { mapped(ip) } else { ip });
        // Source address selection of the kernel when nothing is requested: the bound address;
        // unbound IPv4 to 127/8 -> 127.0.0.1; unbound IPv6 to a local address -> that address.
        let from_canon = src_canon.unwrap_or(if !wild {
            if v4_wire { lo4 } else { lo6 }
        } else if v4_wire {
            lo4
        } else {
            dst_canon
        });
        let present = |ip: IpAddr| if f.receiver_v6_socket() { mapped(ip) } else { ip };

        // receive buffers: every buffer holds the largest unit the kernel may hand over
        let need = if v.offloaded() { len } else { v.seg as usize };
        let cap = need.max(65536);
        let buf_sizes = v.bufs.iter().map(|&x| (need + x as usize).min(cap)).collect();

        Plan {
            payload,
            segs,
            sender_bind,
            sender_only_v6,
            receiver_bind,
            receiver_only_v6,
            dst_ip,
            src_ip,
            expect_from: present(from_canon),
            expect_dst: present(dst_canon),
            buf_sizes,
            rejected: os_rejects(v, e),
            v4_wire,
            alt_src_effective,
            alt_dst_effective,
        }
    }
}

// ---------------------------------------------------------------------------------------------
// Receiving
// ---------------------------------------------------------------------------------------------

const CANARY: usize = 32;
const CANARY_BYTE: u8 = 0xC3;
const FILL_BYTE: u8 = 0x5A;

struct Got {
    meta: RecvMeta,
    data: Vec<u8>,
    buf_size: usize,
    /// index of the `recv` call and of the buffer within it
    call: usize,
    slot: usize,
}

struct Drained {
    gots: Vec<Got>,
    calls: usize,
    max_batch: usize,
    /// bytes still outstanding when the deadline expired
    timed_out: bool,
}

/// Read until `want` payload bytes were reported and the socket says "would block", or until the
/// deadline. `Err` is a violation (signature, message).
fn drain(rx: &End, sizes: &[usize], want: usize, want_pieces: usize, max_metas: usize, deadline: Duration) -> Result<Drained, (String, String)> {
    let total: usize = sizes.iter().map(|s| s + CANARY).sum();
    let mut arena = vec![FILL_BYTE; total];
    let mut out = Drained { gots: vec![], calls: 0, max_batch: 0, timed_out: false };
    let mut got_bytes = 0usize;
    let mut got_pieces = 0usize;
    let mut waiting_since: Option<Instant> = None;
    loop {
        // lay out [buffer][canary] per slot
        let mut metas = vec![RecvMeta::default(); sizes.len()];
        let res = {
            let mut rest: &mut [u8] = &mut arena;
            let mut bufs: Vec<IoSliceMut<'_>> = Vec::with_capacity(sizes.len());
            for &s in sizes {
                let (b, r) = std::mem::take(&mut rest).split_at_mut(s);
                let (c, r) = r.split_at_mut(CANARY);
                c.fill(CANARY_BYTE);
                bufs.push(IoSliceMut::new(b));
                rest = r;
            }
            rx.state.recv(UdpSockRef::from(&rx.sock), &mut bufs, &mut metas)
        };
        match res {
            Ok(n) => {
                out.calls += 1;
                waiting_since = None;
                if n == 0 || n > sizes.len().min(BATCH_SIZE) {
                    return Err(("c19/recv-count".into(), format!("recv returned Ok({n}) with {} buffers (BATCH_SIZE {BATCH_SIZE})", sizes.len())));
                }
                out.max_batch = out.max_batch.max(n);
                let mut off = 0usize;
                for (i, &s) in sizes.iter().enumerate() {
                    let buf = &arena[off..off + s];
                    let canary = &arena[off + s..off + s + CANARY];
                    if canary.iter().any(|&b| b != CANARY_BYTE) {
                        return Err(("c19/buffer-overrun".into(), format!("bytes behind receive buffer {i} (size {s}) were overwritten")));
                    }
                    if i < n {
                        let m = metas[i];
                        if m.len > s || m.stride == 0 || m.stride > m.len.max(1) || m.len == 0 {
                            return Err((
                                "c19/meta-len-stride".into(),
                                format!("recv call {} slot {i}: len={} stride={} buffer={s} (need 0 < stride <= len <= buffer)", out.calls - 1, m.len, m.stride),
                            ));
                        }
                        got_bytes += m.len;
                        got_pieces += m.len.div_ceil(m.stride);
                        out.gots.push(Got { meta: m, data: buf[..m.len].to_vec(), buf_size: s, call: out.calls - 1, slot: i });
                    }
                    off += s + CANARY;
                }
                if out.gots.len() > max_metas || got_bytes > want + 65536 {
                    return Ok(out); // far more than was sent: let the oracle report it
                }
                // poison the used buffers again so that stale bytes cannot pass for fresh ones
                arena.fill(FILL_BYTE);
            }
            Err(e) if e.kind() == io::ErrorKind::WouldBlock => {
                // everything accounted for (by bytes, or by datagram count when they came short)
                if got_bytes >= want || got_pieces >= want_pieces {
                    return Ok(out);
                }
                let since = *waiting_since.get_or_insert_with(Instant::now);
                let waited = since.elapsed();
                if waited > deadline {
                    out.timed_out = true;
                    return Ok(out);
                }
                if waited > Duration::from_micros(300) {
                    std::thread::sleep(Duration::from_micros(200));
                } else {
                    std::thread::yield_now();
                }
            }
            Err(e) => return Err(("c19/recv-error".into(), format!("recv failed: {e}"))),
        }
    }
}

// ---------------------------------------------------------------------------------------------
// One attempt
// ---------------------------------------------------------------------------------------------

enum Attempt {
    Done(CaseOut),
    /// `Ok` from the send call but datagrams never showed up within the deadline
    Missing(String),
    /// could not even set the scenario up / transient resource error: never an alarm
    Transient(String),
    /// the kernel refused a transmit that is within its limits
    Rejected(String),
}

fn errno_name(e: &io::Error) -> String {
    match e.raw_os_error() {
        Some(22) => "EINVAL".into(),
        Some(90) => "EMSGSIZE".into(),
        Some(5) => "EIO".into(),
        Some(105) => "ENOBUFS".into(),
        Some(12) => "ENOMEM".into(),
        Some(11) => "EAGAIN".into(),
        Some(101) => "ENETUNREACH".into(),
        Some(99) => "EADDRNOTAVAIL".into(),
        Some(n) => format!("errno{n}"),
        None => format!("{:?}", e.kind()),
    }
}

fn is_transient(e: &io::Error) -> bool {
    e.kind() == io::ErrorKind::WouldBlock || matches!(e.raw_os_error(), Some(105) | Some(12) | Some(11))
}

fn fail(sig: &str, msg: String, v: &Scenario, p: &Plan) -> Attempt {
    Attempt::Done(CaseOut::fail(sig, format!("{msg}\n{}", describe(v, p))))
}

fn describe(v: &Scenario, p: &Plan) -> String {
    format!(
        "family={} sender_bind={} receiver_bind={} destination_ip={} src_ip={:?} ecn={:?} datagrams={}x{}B (last {}B, total {}B) offloaded={} split={} declared_extra={:?} via_send={} buffers={:?}",
        v.family.name(),
        p.sender_bind,
        p.receiver_bind,
        p.dst_ip,
        p.src_ip,
        v.ecn,
        v.count,
        v.seg,
        v.last,
        v.len(),
        v.offloaded(),
        v.split,
        v.decl_extra,
        v.via_send,
        if p.buf_sizes.len() > 6 { format!("{}x e.g. {:?}", p.buf_sizes.len(), &p.buf_sizes[..6]) } else { format!("{:?}", p.buf_sizes) },
    )
}

fn metas_brief(gots: &[Got]) -> String {
    let mut s = String::new();
    for g in gots.iter().take(12) {
        s += &format!(
            "\n  call {} slot {}: len={} stride={} ecn={:?} addr={} dst_ip={:?} buffer={}",
            g.call, g.slot, g.meta.len, g.meta.stride, g.meta.ecn, g.meta.addr, g.meta.dst_ip, g.buf_size
        );
    }
    if gots.len() > 12 {
        s += &format!("\n  ... {} metas in total", gots.len());
    }
    s
}

fn send_one(tx: &End, t: &Transmit<'_>, via_send: bool) -> io::Result<()> {
    if via_send {
        tx.state.send(UdpSockRef::from(&tx.sock), t)
    } else {
        tx.state.try_send(UdpSockRef::from(&tx.sock), t)
    }
}

fn attempt_once(v: &Scenario, p: &Plan, degraded: bool, deadline: Duration) -> Attempt {
    let tx = match mk_end(p.sender_bind, p.sender_only_v6) {
        Ok(e) => e,
        Err(e) => return Attempt::Transient(format!("sender socket: {e}")),
    };
    let rx = match mk_end(p.receiver_bind, p.receiver_only_v6) {
        Ok(e) => e,
        Err(e) => return Attempt::Transient(format!("receiver socket: {e}")),
    };
    // large enough for 64 KiB of back-to-back datagrams whatever their truesize
    let _ = rx.state.set_recv_buffer_size(UdpSockRef::from(&rx.sock), 4 << 20);
    let destination = SocketAddr::new(p.dst_ip, rx.local.port());
    let ecn = v.ecn.get();
    let rotate = v.ecn_rotate && v.count > 1 && !v.offloaded();
    let ecn_of = |i: usize| -> Option<EcnCodepoint> { if rotate { v.ecn.rotated(i).get() } else { ecn } };
    let mut labels: Vec<&'static str> = vec![];

    // Fallback mode: make the kernel refuse an offloaded transmit the way a driver without
    // UDP_SEGMENT support does (EINVAL/EIO from sendmsg) and go on with the degraded state.
    if degraded {
        if tx.state.max_gso_segments() <= 1 {
            return Attempt::Done(CaseOut::inconclusive("no segmentation offload on this kernel: nothing to degrade from"));
        }
        let junk = payload_bytes(!v.id, OVER_KERNEL_SEGMENTS);
        let t = Transmit { destination, ecn, contents: &junk, segment_size: Some(1), src_ip: p.src_ip };
        match tx.state.try_send(UdpSockRef::from(&tx.sock), &t) {
            Ok(()) => {
                // either this kernel takes 300 segments (then they arrive) or an error was lost
                return match drain(&rx, &[65536], junk.len(), junk.len(), 400, deadline) {
                    // (the segments are one byte each: anything longer than its stride is a merged datagram)
                    Ok(d) if d.gots.iter().map(|g| g.meta.len).sum::<usize>() == junk.len() && d.gots.iter().all(|g| g.meta.stride == 1) => {
                        Attempt::Done(CaseOut::inconclusive("kernel accepted a 300-segment batch: fallback not provoked"))
                    }
                    Ok(d) if d.gots.iter().map(|g| g.meta.len).sum::<usize>() == junk.len() => fail(
                        "c19/segments-merged",
                        format!("try_send returned Ok for a transmit of {} one-byte segments, but they arrived merged:{}", OVER_KERNEL_SEGMENTS, metas_brief(&d.gots)),
                        v,
                        p,
                    ),
                    Ok(d) => Attempt::Missing(format!("try_send returned Ok for a {}-segment transmit but only {} bytes arrived", OVER_KERNEL_SEGMENTS, d.gots.iter().map(|g| g.meta.len).sum::<usize>())),
                    Err((sig, msg)) => fail(&sig, msg, v, p),
                };
            }
            Err(e) if matches!(e.raw_os_error(), Some(22) | Some(5)) => {}
            Err(e) if is_transient(&e) => return Attempt::Transient(format!("provoking send: {e}")),
            Err(e) => return Attempt::Done(CaseOut::inconclusive(format!("provoking send failed with {e}, expected EINVAL/EIO"))),
        }
        if tx.state.max_gso_segments() != 1 {
            return fail(
                "c19/fallback-not-entered",
                format!("sendmsg failed with EINVAL/EIO for an offloaded transmit but max_gso_segments() is still {}", tx.state.max_gso_segments()),
                v,
                p,
            );
        }
        // the refused batch must not have been delivered in part
        match drain(&rx, &[65536], 0, 0, 4, Duration::ZERO) {
            Ok(d) if d.gots.is_empty() => {}
            Ok(d) => return fail("c19/refused-transmit-delivered", format!("a transmit refused with an error was (partly) delivered:{}", metas_brief(&d.gots)), v, p),
            Err((sig, msg)) => return fail(&sig, msg, v, p),
        }
        labels.push("fallback-entered");
    }

    // ---- send
    let seg_decl = |piece_len: usize| -> Option<usize> { v.decl_extra.map(|x| (piece_len.max(v.seg as usize)).saturating_add(x as usize)) };
    let mut transmits: Vec<Transmit<'_>> = vec![];
    if v.offloaded() {
        transmits.push(Transmit { destination, ecn, contents: &p.payload, segment_size: Some(v.seg as usize), src_ip: p.src_ip });
    } else {
        for (i, &(off, l)) in p.segs.iter().enumerate() {
            transmits.push(Transmit { destination, ecn: ecn_of(i), contents: &p.payload[off..off + l], segment_size: seg_decl(l), src_ip: p.src_ip });
        }
    }
    let mut swallowed_possible = false;
    for t in &transmits {
        match send_one(&tx, t, v.via_send) {
            Ok(()) => {
                swallowed_possible |= v.via_send;
            }
            Err(e) if is_transient(&e) => return Attempt::Transient(format!("send: {e}")),
            Err(e) => {
                let name = errno_name(&e);
                // nothing of a refused transmit may show up
                let leak = match drain(&rx, &[65536], 0, 0, 4, Duration::ZERO) {
                    Ok(d) => d.gots,
                    Err((sig, msg)) => return fail(&sig, msg, v, p),
                };
                if !leak.is_empty() && transmits.len() == 1 {
                    return fail("c19/refused-transmit-delivered", format!("send failed with {name} but data arrived:{}", metas_brief(&leak)), v, p);
                }
                return match p.rejected {
                    Some(_) => Attempt::Done(CaseOut::discard(format!("os-reject:{name}"))),
                    None => Attempt::Rejected(format!("send failed with {name} ({e}) although the transmit is within the kernel's limits (a plain datagram of this size to this destination is accepted)")),
                };
            }
        }
    }
    if p.rejected.is_some() && swallowed_possible {
        // `send` swallows the OS error by contract; make sure nothing half-sent shows up
        return match drain(&rx, &[65536], 0, 0, 4, Duration::ZERO) {
            Ok(d) if d.gots.is_empty() => Attempt::Done(CaseOut::discard("os-reject:swallowed-by-send")),
            Ok(_) => Attempt::Done(CaseOut::discard("os-reject:not-rejected")),
            Err((sig, msg)) => fail(&sig, msg, v, p),
        };
    }

    // ---- receive
    let want = v.len();
    let d = match drain(&rx, &p.buf_sizes, want, v.count as usize, v.count as usize + 8, deadline) {
        Ok(d) => d,
        Err((sig, msg)) => return fail(&sig, msg, v, p),
    };

    // ---- oracle: reassemble
    let mut pieces: Vec<(&[u8], usize)> = vec![]; // (bytes, index of the meta it came from)
    for (gi, g) in d.gots.iter().enumerate() {
        for c in g.data.chunks(g.meta.stride) {
            pieces.push((c, gi));
        }
    }
    let expect: Vec<&[u8]> = p.segs.iter().map(|&(o, l)| &p.payload[o..o + l]).collect();
    let in_order = pieces.len() == expect.len() && pieces.iter().zip(&expect).all(|(a, b)| a.0 == *b);
    let mut reordered = false;
    // which segment every piece is (identity unless transmits overtook each other)
    let mut assign: Vec<usize> = (0..pieces.len()).collect();
    if !in_order {
        // several transmits sent back to back may (very rarely) be queued out of order when the
        // sending thread migrates while a softirq is deferred; segments of ONE transmit may not.
        let multiset_ok = v.split && pieces.len() == expect.len() && {
            let mut a: Vec<&[u8]> = pieces.iter().map(|x| x.0).collect();
            let mut b = expect.clone();
            a.sort();
            b.sort();
            a == b
        };
        if multiset_ok {
            reordered = true;
            let mut used = vec![false; expect.len()];
            for (k, (pc, _)) in pieces.iter().enumerate() {
                let j = (0..expect.len()).find(|&j| !used[j] && expect[j] == *pc).unwrap();
                used[j] = true;
                assign[k] = j;
            }
        } else {
            let got_bytes: usize = pieces.iter().map(|x| x.0.len()).sum();
            let shape: Vec<usize> = pieces.iter().map(|x| x.0.len()).take(16).collect();
            let detail = format!(
                "expected {} datagrams ({} bytes), reassembled {} pieces ({} bytes), first piece sizes {:?}{}",
                expect.len(),
                want,
                pieces.len(),
                got_bytes,
                shape,
                metas_brief(&d.gots)
            );
            // subsequence of the expectation with something left out => missing
            let mut j = 0;
            let mut subseq = true;
            for (pc, _) in &pieces {
                while j < expect.len() && expect[j] != *pc {
                    j += 1;
                }
                if j == expect.len() {
                    subseq = false;
                    break;
                }
                j += 1;
            }
            if subseq && pieces.len() < expect.len() {
                return Attempt::Missing(detail);
            }
            let concat: Vec<u8> = pieces.iter().flat_map(|x| x.0.iter().copied()).collect();
            if concat == p.payload {
                return fail("c19/boundaries", format!("all bytes arrived but datagram boundaries differ from the transmit's segments: {detail}"), v, p);
            }
            if got_bytes > want || pieces.len() > expect.len() {
                return fail("c19/unexpected-data", format!("more was received than sent: {detail}"), v, p);
            }
            if p.payload.starts_with(&concat) || pieces.iter().zip(&expect).all(|(a, b)| b.starts_with(a.0)) {
                return fail("c19/truncated", format!("datagrams were cut short or merged: {detail}"), v, p);
            }
            return fail("c19/payload", format!("received bytes differ from the sent ones: {detail}"), v, p);
        }
    }

    // ---- oracle: metadata
    let mut ecn_lost_on_gro: Option<String> = None;
    let mut coalesced = false;
    let mut ecn_dropped_in_fallback = false;
    for (gi, g) in d.gots.iter().enumerate() {
        let m = &g.meta;
        coalesced |= m.len > m.stride;
        // the codepoint of the first datagram in this buffer (an offloaded batch has only one)
        let first_piece = pieces.iter().position(|x| x.1 == gi).unwrap_or(0);
        let ecn = ecn_of(assign[first_piece]);
        if m.addr.ip() != p.expect_from || m.addr.port() != tx.local.port() {
            return fail(
                "c19/src-addr",
                format!("meta.addr = {} but the datagram was sent from {} port {}{}", m.addr, p.expect_from, tx.local.port(), metas_brief(&d.gots)),
                v,
                p,
            );
        }
        match m.dst_ip {
            Some(ip) if ip == p.expect_dst => {}
            other => {
                return fail("c19/dst-ip", format!("meta.dst_ip = {other:?} but the destination was {}{}", p.expect_dst, metas_brief(&d.gots)), v, p);
            }
        }
        if m.ecn != ecn {
            if degraded && p.v4_wire && m.ecn.is_none() {
                // documented: after EINVAL the IP_TOS control message is no longer used
                ecn_dropped_in_fallback = true;
            } else if m.len > m.stride && m.ecn.is_none() {
                ecn_lost_on_gro.get_or_insert_with(|| format!("sent {:?}, coalesced receive (len={} stride={}) reports ecn=None", ecn, m.len, m.stride));
            } else {
                return fail("c19/ecn", format!("meta.ecn = {:?} but the transmit said {:?}{}", m.ecn, ecn, metas_brief(&d.gots)), v, p);
            }
        }
    }
    if let Some(msg) = ecn_lost_on_gro {
        return fail("c19/ecn-lost-on-gro-coalesced-receive", format!("{msg}{}", metas_brief(&d.gots)), v, p);
    }

    // ---- classification
    let gso_effective = v.offloaded();
    if gso_effective {
        labels.push("gso");
        if v.last < v.seg {
            labels.push("gso-short-last");
        }
        if !coalesced {
            labels.push("gso-arrived-unmerged");
        }
    } else if v.count > 1 {
        labels.push("caller-split");
    } else {
        labels.push("single");
    }
    if coalesced {
        labels.push("gro-coalesced");
    }
    if v.count as usize == env().max_gso && gso_effective {
        labels.push("gso-max-segments");
    }
    if v.decl_extra.is_some() && !gso_effective {
        labels.push("declared-seg>=len");
    }
    if ecn.is_some() || rotate {
        labels.push("ecn");
    }
    if rotate {
        labels.push("mixed-ecn-batch");
    }
    match v.src {
        Src::None => {}
        Src::Local => labels.push("src-ip"),
        Src::Alt => labels.push(if p.alt_src_effective { "src-ip-alt" } else { "src-ip" }),
    }
    if p.alt_dst_effective {
        labels.push("dst-alt");
    }
    if v.family.receiver_v6_socket() && p.v4_wire {
        labels.push("mapped-peer");
    }
    if v.family.sender_dual() {
        labels.push("mapped-destination");
    }
    if d.max_batch > 1 {
        labels.push("recv-batch>1");
    }
    if p.buf_sizes.len() > BATCH_SIZE {
        labels.push("bufs>BATCH_SIZE");
    }
    if d.gots.iter().any(|g| g.meta.len == g.buf_size) {
        labels.push("buffer-exactly-full");
    }
    if v.len() >= 65000 {
        labels.push("near-max-payload");
    }
    if v.via_send {
        labels.push("via-send");
    }
    if reordered {
        labels.push("reordered-across-transmits");
    }
    if ecn_dropped_in_fallback {
        labels.push("ecn-dropped-in-fallback");
    }
    let nontrivial = (gso_effective && v.last < v.seg) || coalesced || (gso_effective && ecn.is_some() && v.src != Src::None);
    let summary = json!({
        "family": v.family.name(),
        "datagrams": v.count, "seg": v.seg, "last": v.last, "bytes": v.len(),
        "offloaded": gso_effective, "ecn": format!("{:?}", v.ecn), "src_ip": p.src_ip.map(|x| x.to_string()),
        "buffers": p.buf_sizes.len(),
        "recv_calls": d.calls,
        "metas": d.gots.iter().take(4).map(|g| json!({"len": g.meta.len, "stride": g.meta.stride, "addr": g.meta.addr.to_string()})).collect::<Vec<_>>(),
    });
    Attempt::Done(CaseOut { verdict: Verdict::Pass, labels, nontrivial, summary: Some(summary) })
}

thread_local! {
    /// Set once this thread has established, with full patience, a failure that involved waiting
    /// for a datagram that never came. Under `run_prop` everything the thread evaluates afterwards is a shrink candidate of a
    /// failure, and thousands of candidates that each wait 3 x up to 300 ms for a datagram that
    /// will not come would turn a broken tree into a half-hour run; they use short deadlines.
    static IMPATIENT: std::cell::Cell<bool> = const { std::cell::Cell::new(false) };
}

const PATIENT_MS: [u64; 3] = [20, 80, 300];
const IMPATIENT_MS: [u64; 3] = [3, 10, 30];

fn run_case_adaptive(v: &Scenario, degraded: bool) -> CaseOut {
    let ms = if IMPATIENT.with(|f| f.get()) { IMPATIENT_MS } else { PATIENT_MS };
    let t0 = Instant::now();
    let out = run_case(v, degraded, ms);
    // (a known finding never waits, so it cannot switch the thread to short deadlines)
    if matches!(&out.verdict, Verdict::Fail { .. }) && t0.elapsed() > Duration::from_millis(50) {
        IMPATIENT.with(|f| f.set(true));
    }
    out
}

fn run_case(v: &Scenario, degraded: bool, deadlines_ms: [u64; 3]) -> CaseOut {
    if let Err(why) = v.validate() {
        return CaseOut::discard(format!("invalid scenario: {why}"));
    }
    let e = env();
    if !e.v6 && v.family != Family::V4 {
        return CaseOut::discard("no IPv6 on this host");
    }
    let mut v = v.clone();
    if degraded {
        // the caller obeys max_gso_segments() == 1: it splits prepared batches itself
        v.split = true;
        v.via_send = false;
    }
    let p = Plan::new(&v, e);
    let deadlines = deadlines_ms.map(Duration::from_millis);
    let mut missing: Option<String> = None;
    let mut rejected: Option<String> = None;
    let mut transient: Option<String> = None;
    let mut unconfirmed: Option<(String, String)> = None;
    for (attempt, dl) in deadlines.iter().enumerate() {
        let r = match catch(|| attempt_once(&v, &p, degraded, *dl)) {
            Ok(r) => r,
            Err(pn) => {
                return if pn.file.contains("quinn-udp") || pn.in_quinn() {
                    let site = pn.file.rsplit("quinn-udp/").next().unwrap_or(&pn.file).to_string();
                    CaseOut::fail(format!("c19/panic@{site}"), format!("panic in quinn-udp at {}:{}: {}\n{}", pn.file, pn.line, pn.msg, describe(&v, &p)))
                } else {
                    CaseOut::inconclusive(format!("harness panic at {}:{}: {}", pn.file, pn.line, pn.msg))
                };
            }
        };
        match r {
            Attempt::Done(mut out) => {
                // A defect of the layer is a function of the scenario and shows again on a fresh
                // socket pair; anything that does not (a stray datagram, a scheduling artefact) is
                // surfaced as inconclusive instead of raising an alarm.
                if let Verdict::Fail { sig, msg } = &out.verdict {
                    match &unconfirmed {
                        None if attempt + 1 < deadlines.len() => {
                            unconfirmed = Some((sig.clone(), msg.clone()));
                            continue;
                        }
                        _ => return out,
                    }
                }
                if let Some((sig, msg)) = &unconfirmed {
                    if out.verdict == Verdict::Pass {
                        let first = msg.lines().next().unwrap_or_default();
                        return CaseOut::inconclusive(format!("failure {sig} did not reproduce on fresh sockets: {first}"));
                    }
                }
                if attempt > 0 && out.verdict == Verdict::Pass {
                    out.labels.push(if missing.is_some() { "transient-drop-retried" } else { "transient-error-retried" });
                }
                return out;
            }
            Attempt::Missing(m) => missing = Some(m),
            Attempt::Rejected(m) => {
                // confirmed on a second, fresh socket pair
                if rejected.is_some() {
                    return CaseOut::fail("c19/send-rejected", format!("{m}\n{}", describe(&v, &p)));
                }
                rejected = Some(m);
            }
            Attempt::Transient(m) => transient = Some(m),
        }
    }
    if let (Some((sig, msg)), None) = (&unconfirmed, &missing) {
        // failed once, later attempts were neither pass nor fail
        return CaseOut::inconclusive(format!("failure {sig} could not be re-examined: {}", msg.lines().next().unwrap_or_default()));
    }
    if let Some(m) = missing {
        return CaseOut::fail(
            "c19/send-ok-but-missing",
            format!("the send call returned Ok but datagrams never arrived (3 attempts on fresh sockets, deadlines {deadlines_ms:?} ms): {m}\n{}", describe(&v, &p)),
        );
    }
    CaseOut::inconclusive(format!("transient: {}", transient.or(rejected).unwrap_or_default()))
}

/// Replay entry point of sub-checks `c19` and `c19-enum`
pub fn case(v: &Scenario) -> CaseOut {
    run_case_adaptive(v, false)
}

/// Replay entry point of sub-check `c19-fallback`
pub fn case_degraded(v: &Scenario) -> CaseOut {
    run_case_adaptive(v, true)
}

// ---------------------------------------------------------------------------------------------
// Foreign sender: a plain socket that marks its datagrams with a DSCP value next to the ECN bits
// ---------------------------------------------------------------------------------------------

/// `family`: 0 IPv4 -> IPv4 socket, 1 IPv6 -> IPv6 socket, 2 IPv4 -> dual-stack IPv6 socket, 3 link-local IPv6
/// (with a scope id) if the host has such an address
#[derive(Debug, Clone, Serialize, Deserialize)]
pub struct Foreign {
    pub id: u64,
    pub family: u8,
    pub dscp: u8,
    pub ecn: u8,
    pub lens: Vec<u16>,
}

pub fn arb_foreign() -> impl Strategy<Value = Foreign> {
    (any::<u64>(), 0u8..4, prop_oneof![2 => Just(0u8), 3 => proptest::sample::select(vec![8u8, 10, 18, 26, 34, 46, 48, 56, 63]), 2 => 0u8..64], 0u8..4, proptest::collection::vec(prop_oneof![1u16..64, 64u16..1452], 1..4))
        .prop_map(|(id, family, dscp, ecn, lens)| Foreign { id, family, dscp, ecn, lens })
}

/// A link-local IPv6 address of this host with its interface index (the scope id), if there is one
fn link_local() -> Option<(Ipv6Addr, u32)> {
    static LL: OnceLock<Option<(Ipv6Addr, u32)>> = OnceLock::new();
    *LL.get_or_init(|| {
        let txt = std::fs::read_to_string("/proc/net/if_inet6").ok()?;
        for l in txt.lines() {
            let p: Vec<&str> = l.split_whitespace().collect();
            if p.len() >= 6 && p[0].starts_with("fe80") && p[5] != "lo" {
                let mut b = [0u8; 16];
                for i in 0..16 {
                    b[i] = u8::from_str_radix(&p[0][2 * i..2 * i + 2], 16).ok()?;
                }
                let idx = u32::from_str_radix(p[1], 16).ok()?;
                return Some((Ipv6Addr::from(b), idx));
            }
        }
        None
    })
}

pub fn case_foreign(f: &Foreign) -> CaseOut {
    if f.family % 4 == 3 {
        return case_foreign_link_local(f);
    }
    let v4_sender = f.family != 1;
    let rx_bind: SocketAddr = match f.family % 3 {
        0 => (Ipv4Addr::LOCALHOST, 0).into(),
        1 => (Ipv6Addr::LOCALHOST, 0).into(),
        _ => (Ipv6Addr::UNSPECIFIED, 0).into(),
    };
    let rx = match mk_end(rx_bind, if f.family % 3 == 2 { Some(false) } else { None }) {
        Ok(e) => e,
        Err(e) => return CaseOut::inconclusive(format!("receiver socket: {e}")),
    };
    let tx_bind: SocketAddr = if v4_sender { (Ipv4Addr::LOCALHOST, 0).into() } else { (Ipv6Addr::LOCALHOST, 0).into() };
    let tx = match mk_socket(tx_bind, None) {
        Ok(s) => s,
        Err(e) => return CaseOut::inconclusive(format!("sender socket: {e}")),
    };
    let tos = ((f.dscp as u32) << 2) | (f.ecn as u32 & 3);
    let sref = socket2::SockRef::from(&tx);
    let set = if v4_sender { sref.set_tos_v4(tos) } else { sref.set_tclass_v6(tos) };
    if let Err(e) = set {
        return CaseOut::inconclusive(format!("cannot set the traffic class: {e}"));
    }
    let dst: SocketAddr = if v4_sender { (Ipv4Addr::LOCALHOST, rx.local.port()).into() } else { (Ipv6Addr::LOCALHOST, rx.local.port()).into() };
    let from = tx.local_addr().ok();
    let want = EcnCodepoint::from_bits(f.ecn & 3);
    for (i, len) in f.lens.iter().enumerate() {
        let data = payload_bytes(f.id ^ i as u64, *len as usize);
        match tx.send_to(&data, dst) {
            Ok(n) if n == data.len() => {}
            Ok(_) => return CaseOut::inconclusive("short send"),
            Err(e) => return CaseOut::inconclusive(format!("send: {e}")),
        }
        let d = match drain(&rx, &[2048], data.len(), 1, 2, Duration::from_millis(300)) {
            Ok(d) => d,
            Err((sig, msg)) => return CaseOut::fail(sig, msg),
        };
        let Some(g) = d.gots.first() else {
            return CaseOut::inconclusive("loopback datagram did not arrive within 300 ms");
        };
        let say = |what: String| format!("{what}; plain sender ({}) with traffic class {tos:#04x} = DSCP {} + ECN bits {:02b}, receiver bound to {rx_bind}", if v4_sender { "IPv4" } else { "IPv6" }, f.dscp, f.ecn & 3);
        if g.data != data || g.meta.len != data.len() {
            return CaseOut::fail("c19/payload", say(format!("datagram {i}: {} bytes sent, RecvMeta.len {} / {} bytes reported", data.len(), g.meta.len, g.data.len())));
        }
        if g.meta.ecn != want {
            return CaseOut::fail("c19/ecn", say(format!("datagram {i}: RecvMeta.ecn is {:?}, the datagram carried {:?}", g.meta.ecn, want)));
        }
        if let Some(fr) = from {
            let same = match (g.meta.addr.ip(), fr.ip()) {
                (IpAddr::V6(a), IpAddr::V4(b)) => a.to_ipv4_mapped() == Some(b),
                (a, b) => a == b,
            };
            if !same || g.meta.addr.port() != fr.port() {
                return CaseOut::fail("c19/src-addr", say(format!("datagram {i}: RecvMeta.addr is {}, sent from {fr}", g.meta.addr)));
            }
        }
    }
    let mut labels = vec![match f.family % 3 {
        0 => "v4",
        1 => "v6",
        _ => "v4-to-dual-stack",
    }];
    if f.dscp != 0 {
        labels.push("dscp-set");
    }
    if f.ecn & 3 != 0 {
        labels.push("ecn-set");
    }
    CaseOut { verdict: Verdict::Pass, labels, nontrivial: f.dscp != 0 && f.ecn & 3 != 0, summary: Some(json!({"family": f.family % 3, "dscp": f.dscp, "ecn": f.ecn & 3, "lens": f.lens})) }
}

/// Sender and receiver on a link-local address: the source address reported carries the scope id
fn case_foreign_link_local(f: &Foreign) -> CaseOut {
    let Some((ip, scope)) = link_local() else {
        return CaseOut::discard("no link-local IPv6 address on this host");
    };
    let bind = SocketAddr::V6(std::net::SocketAddrV6::new(ip, 0, 0, scope));
    let rx = match mk_end(bind, None) {
        Ok(e) => e,
        Err(e) => return CaseOut::inconclusive(format!("receiver socket on {bind}: {e}")),
    };
    let tx = match mk_socket(bind, None) {
        Ok(s) => s,
        Err(e) => return CaseOut::inconclusive(format!("sender socket on {bind}: {e}")),
    };
    let tos = ((f.dscp as u32) << 2) | (f.ecn as u32 & 3);
    if let Err(e) = socket2::SockRef::from(&tx).set_tclass_v6(tos) {
        return CaseOut::inconclusive(format!("cannot set the traffic class: {e}"));
    }
    let Ok(from) = tx.local_addr() else { return CaseOut::inconclusive("no local address") };
    let dst = SocketAddr::V6(std::net::SocketAddrV6::new(ip, rx.local.port(), 0, scope));
    for (i, len) in f.lens.iter().enumerate() {
        let data = payload_bytes(f.id ^ i as u64, *len as usize);
        if !matches!(tx.send_to(&data, dst), Ok(n) if n == data.len()) {
            return CaseOut::inconclusive("send on the link-local address failed");
        }
        let d = match drain(&rx, &[2048], data.len(), 1, 2, Duration::from_millis(300)) {
            Ok(d) => d,
            Err((sig, msg)) => return CaseOut::fail(sig, msg),
        };
        let Some(g) = d.gots.first() else {
            return CaseOut::inconclusive("link-local datagram did not arrive within 300 ms");
        };
        if g.data != data {
            return CaseOut::fail("c19/payload", format!("link-local datagram {i}: payload differs"));
        }
        if g.meta.addr != from {
            return CaseOut::fail("c19/src-addr", format!("datagram {i}: RecvMeta.addr is {:?}, sent from {from:?} (link-local: address, port, flow label and scope id must all be reported)", g.meta.addr));
        }
        if g.meta.ecn != EcnCodepoint::from_bits(f.ecn & 3) {
            return CaseOut::fail("c19/ecn", format!("link-local datagram {i}: RecvMeta.ecn is {:?}, sent {:02b}", g.meta.ecn, f.ecn & 3));
        }
    }
    CaseOut { verdict: Verdict::Pass, labels: vec!["v6-link-local"], nontrivial: true, summary: Some(json!({"family": "link-local", "scope": scope, "lens": f.lens})) }
}

// ---------------------------------------------------------------------------------------------
// Generator
// ---------------------------------------------------------------------------------------------

fn arb_count(max_gso: usize) -> BoxedStrategy<u32> {
    let m = max_gso.max(1) as u32;
    if m == 1 {
        return prop_oneof![3 => Just(1u32), 1 => 2u32..=8].boxed();
    }
    prop_oneof![
        30 => Just(1u32),
        12 => Just(2u32),
        20 => 2u32..=8.min(m),
        20 => 2u32..=m,
        6 => Just(m - 1),
        12 => Just(m),
    ]
    .boxed()
}

/// Length of a single datagram: small, protocol-typical, boundaries, near-max, and a thin slice
/// beyond what this kernel sends (the error path)
fn arb_single_len(max_single: u32, max_total: u32) -> BoxedStrategy<u32> {
    let bounds: Vec<u32> = [1u32, 2, 3, 7, 8, 9, 63, 64, 65, 1199, 1200, 1201, 1252, 1280, 1452, 1472, 1473, 1500, 4095, 4096, 4097, 8192, 9000, 16384, 32767, 32768, 65487, 65488]
        .into_iter()
        .filter(|&x| x <= max_single)
        .chain([max_single - 1, max_single])
        .collect();
    prop_oneof![
        28 => 1u32..=64,
        18 => 65u32..=1500,
        12 => proptest::sample::select(bounds),
        15 => 1u32..=max_single,
        10 => 60_000u32..=max_single,
        14 => (max_single - 64)..=max_single,
        3 => (max_single + 1)..=(max_total + 8).max(max_single + 1),
    ]
    .boxed()
}

/// (seg, last) for `count >= 2` datagrams with `seg * (count-1) + last <= max_total`
fn arb_seg_last(count: u32, max_total: u32) -> BoxedStrategy<(u32, u32)> {
    let cap = (max_total / count).max(1);
    let seg = prop_oneof![
        8 => Just(1u32),
        6 => Just(2u32),
        20 => 1u32..=64.min(cap),
        18 => (1200u32.min(cap))..=(1500u32.min(cap)),
        24 => 1u32..=cap,
        6 => Just(cap.saturating_sub(1).max(1)),
        18 => Just(cap),
    ];
    (seg, 0u8..=8, any::<u32>())
        .prop_map(|(seg, sel, r)| {
            let last = match sel {
                0..=2 => seg,
                3 | 4 => 1,
                5 => seg.saturating_sub(1).max(1),
                _ => 1 + r % seg,
            };
            (seg, last)
        })
        .boxed()
}

fn arb_bufs() -> BoxedStrategy<Vec<u32>> {
    let extra = prop_oneof![
        10 => Just(0u32),
        2 => Just(1u32),
        4 => 0u32..64,
        3 => 0u32..70_000,
        4 => Just(70_000u32),
    ];
    let b = BATCH_SIZE;
    let n = prop_oneof![
        30 => Just(1usize),
        25 => 2usize..=8,
        20 => Just(b),
        5 => Just(b - 1),
        5 => (b + 1)..=(b + 4),
        15 => 1usize..=b,
    ];
    n.prop_flat_map(move |n| proptest::collection::vec(extra.clone(), n)).boxed()
}

pub fn arb_scenario() -> impl Strategy<Value = Scenario> {
    let e = env().clone();
    let fams: Vec<Family> = if e.v6 { FAMILIES.to_vec() } else { vec![Family::V4] };
    (proptest::sample::select(fams), arb_count(e.max_gso), any::<bool>())
        .prop_flat_map(move |(family, count, split)| {
            let hdr: u32 = if family.v6_wire() { 48 } else { 28 };
            let max_total = 65535 - hdr;
            let max_single = max_total.min(e.lo_mtu as u32 - hdr);
            let shape = if count == 1 {
                arb_single_len(max_single, max_total).prop_map(|l| (l, l)).boxed()
            } else {
                // split pieces are single datagrams: keep them within what one datagram may carry
                arb_seg_last(count, max_total)
            };
            let decl = prop_oneof![
                5 => Just(None),
                3 => Just(Some(0u32)),
                1 => Just(Some(1u32)),
                1 => (0u32..70_000).prop_map(Some),
                1 => Just(Some(u32::MAX)),
            ];
            (
                (Just(family), Just(count), Just(split), shape),
                (any::<u64>(), any::<bool>(), any::<bool>(), proptest::sample::select(ECNS.to_vec()), proptest::sample::select(SRCS.to_vec()), any::<bool>()),
                (decl, prop::bool::weighted(0.15), arb_bufs(), any::<bool>()),
            )
        })
        .prop_map(|((family, count, split, (seg, last)), (id, wild_sender, dst_alt, ecn, src, src_mapped), (decl_extra, via_send, bufs, ecn_rotate))| Scenario {
            id,
            family,
            wild_sender,
            dst_alt,
            ecn,
            src,
            src_mapped: src_mapped && family.sender_dual(),
            count,
            seg,
            last,
            decl_extra,
            split: split && count > 1,
            via_send,
            ecn_rotate: ecn_rotate && split && count > 1,
            bufs,
        })
}

// ---------------------------------------------------------------------------------------------
// Enumeration of the option space
// ---------------------------------------------------------------------------------------------

/// Every combination of family x sender binding x destination x ECN x src_ip (x its form) x
/// send shape x api, each with a few payload sizes and two receive-buffer shapes.
pub fn enumerate() -> Vec<Scenario> {
    let e = env();
    let mut out = vec![];
    let fams: Vec<Family> = if e.v6 { FAMILIES.to_vec() } else { vec![Family::V4] };
    let g = e.max_gso.max(2) as u32;
    // (count, seg, last, split, decl_extra); caller-split shapes also run with rotating ECN
    let shapes: Vec<(u32, u32, u32, bool, Option<u32>)> = vec![
        (1, 1, 1, false, None),
        (1, 1200, 1200, false, None),
        (1, 1200, 1200, false, Some(0)),
        (1, 37, 37, false, Some(5000)),
        (1, 65000, 65000, false, None),
        (2, 1, 1, false, None),
        (3, 1200, 1200, false, None),
        (3, 1200, 1, false, None),
        (10, 1452, 700, false, None),
        (g, 100, 99, false, None),
        (g, 1000, 1000, false, None),
        (4, 16000, 1500, false, None),
        (5, 300, 299, true, None),
        (5, 300, 299, true, Some(0)),
        (g.min(40), 1200, 1200, true, None),
    ];
    let mut id = 0u64;
    for &family in &fams {
        for wild_sender in [false, true] {
            if family.sender_dual() && !wild_sender {
                continue; // dual-stack senders are always bound to [::]
            }
            for dst_alt in [false, true] {
                for ecn in ECNS {
                    for src in SRCS {
                        for src_mapped in [false, true] {
                            if src_mapped && !(family.sender_dual() && src != Src::None) {
                                continue;
                            }
                            for via_send in [false, true] {
                                for &(count, seg, last, split, decl_extra) in &shapes {
                                    if via_send && !(count == 3 || (count == 1 && seg == 1200 && decl_extra.is_none())) {
                                        continue; // `send` is the same code path: a thinner slice
                                    }
                                    for (bufs, ecn_rotate) in [(vec![0u32], false), (vec![70_000u32; BATCH_SIZE], false), (vec![70_000u32; BATCH_SIZE], true)] {
                                        if ecn_rotate && !split {
                                            continue;
                                        }
                                        id += 1;
                                        out.push(Scenario {
                                            id: mix(0xc19e, id),
                                            family,
                                            wild_sender,
                                            dst_alt,
                                            ecn,
                                            src,
                                            src_mapped,
                                            count,
                                            seg,
                                            last,
                                            decl_extra,
                                            split,
                                            via_send,
                                            ecn_rotate,
                                            bufs,
                                        });
                                    }
                                }
                            }
                        }
                    }
                }
            }
        }
    }
    out
}

fn run_enum(report: &Report, name: &str, rule: &str, degraded: bool) {
    if !report.wants(name) {
        return;
    }
    let started = Instant::now();
    let all = enumerate();
    let threads = report.opts.threads.max(1);
    let results: std::sync::Mutex<Vec<(usize, CaseOut)>> = std::sync::Mutex::new(vec![]);
    let next = std::sync::atomic::AtomicUsize::new(0);
    // a broken tree fails thousands of combinations and a missing datagram costs three deadlines:
    // stop after a handful of new failures (the enumeration is then reported as not exhaustive)
    let new_failures = std::sync::atomic::AtomicUsize::new(0);
    std::thread::scope(|sc| {
        for _ in 0..threads {
            sc.spawn(|| loop {
                let i = next.fetch_add(1, std::sync::atomic::Ordering::Relaxed);
                if i >= all.len() || new_failures.load(std::sync::atomic::Ordering::Relaxed) >= 8 {
                    break;
                }
                let out = match catch(|| run_case(&all[i], degraded, PATIENT_MS)) {
                    Ok(o) => o,
                    Err(p) => panic_to_case(p, false),
                };
                if let Verdict::Fail { sig, .. } = &out.verdict {
                    if !report.is_known(sig) {
                        new_failures.fetch_add(1, std::sync::atomic::Ordering::Relaxed);
                    }
                }
                results.lock().unwrap().push((i, out));
            });
        }
    });
    let mut res = results.into_inner().unwrap();
    res.sort_by_key(|x| x.0);
    let complete = res.len() == all.len();
    let mut sub = SubStats { name: name.into(), rule: rule.into(), exhaustive: complete, ..Default::default() };
    if !complete {
        report.note(format!("[{name}] stopped after {} of {} combinations because of new failures", res.len(), all.len()));
    }
    let mut reported: BTreeMap<String, u32> = BTreeMap::new();
    for (i, out) in res {
        sub.evaluations += 1;
        match out.verdict {
            Verdict::Pass => {
                for l in &out.labels {
                    *sub.classes.entry(l.to_string()).or_insert(0) += 1;
                }
                if out.nontrivial {
                    sub.distinct_nontrivial += 1;
                    if sub.samples.len() < 4 {
                        if let Some(s) = out.summary {
                            sub.samples.push(json!({"summary": s, "labels": out.labels}));
                        }
                    }
                }
            }
            Verdict::Discard(why) => {
                sub.discards += 1;
                *sub.classes.entry(format!("discard:{why}")).or_insert(0) += 1;
            }
            Verdict::Inconclusive(why) => {
                sub.inconclusive += 1;
                if sub.inconclusive <= 3 {
                    report.note(format!("[{name}] inconclusive: {why}"));
                }
            }
            Verdict::Fail { sig, msg } => {
                // one replay per signature is enough; count the rest
                let n = reported.entry(sig.clone()).or_insert(0);
                *n += 1;
                if *n == 1 || report.is_known(&sig) {
                    report.fail_direct(name, &sig, msg, serde_json::to_value(&all[i]).unwrap());
                }
            }
        }
    }
    for (sig, n) in &reported {
        if *n > 1 && !report.is_known(sig) {
            report.note(format!("[{name}] {n} enumerated combinations failed with {sig} (first one reported)"));
        }
    }
    sub.wall_s = started.elapsed().as_secs_f64();
    println!(
        "  [{}] cases={} nontrivial={} discards={} inconclusive={} {:.1}s classes={:?}",
        name, sub.evaluations, sub.distinct_nontrivial, sub.discards, sub.inconclusive, sub.wall_s, sub.classes
    );
    report.add_sub(sub);
}

// ---------------------------------------------------------------------------------------------
// Entry point
// ---------------------------------------------------------------------------------------------

pub fn run(report: &Report) -> i32 {
    let e = env();
    report.note(format!(
        "environment: loopback MTU {}, max_gso_segments() = {}, gro_segments() = {}, IPv6 {}, alternative IPv6 address {:?}, BATCH_SIZE {}",
        e.lo_mtu, e.max_gso, e.gro, e.v6, e.alt6, BATCH_SIZE
    ));
    report.assume("Linux back end only, real loopback sockets; each scenario owns a fresh socket pair and the receiver is drained before the scenario ends");
    report.assume("receive buffers hold at least the largest unit the kernel may deliver (the whole batch for an offloaded transmit because UDP_GRO is always on, one datagram otherwise): a smaller buffer is legitimately truncated by the kernel");
    report.assume("send failures are judged against the modelled limits of this kernel (payload <= 65535 - headers, single datagram <= loopback MTU - headers because fragmentation is disabled, <= 128 segments per offloaded send): inside the limits a persistent OS rejection counts, outside it is the documented error path (discard)");
    if e.max_gso > 1 && e.gro > 1 {
        report.assume("this kernel supports UDP_SEGMENT and UDP_GRO, so the 'offload unsupported' clause is exercised only through the library's own fallback path, provoked by an offloaded transmit the kernel refuses with EINVAL (sub-check c19-fallback); a kernel/driver that lacks the offloads (EIO on a supported-looking socket, gro_segments() == 1) is NOT exercised");
    } else {
        report.note(format!("offloads unavailable here (gso {} gro {}): all scenarios run in plain mode", e.max_gso, e.gro));
    }
    if e.alt6.is_none() {
        report.note("no usable global IPv6 address: for IPv6 an explicit src_ip / alternative destination equals the default ::1, so only IPv4 tells a dropped src_ip apart".into());
    }

    run_enum(
        report,
        "c19-enum",
        "enumeration of ALL option combinations family(6) x sender binding x destination x ECN(4) x src_ip(none/default/other, v4 and v4-mapped form) x {plain, declared segment_size >= len, offloaded full/short last/max segments, caller-split} x {try_send, send} with two receive-buffer shapes each; full oracle; non-trivial = offloaded with short last segment, or coalesced receive (len > stride), or ECN + src_ip + offload",
        false,
    );
    run_prop(
        report,
        "c19",
        "proptest scenarios: family x bindings x payload 1..=max (bias small/boundary/near-max) x 1..=max_gso_segments() segments incl. short last x ECN x src_ip x receive batch 1..BATCH_SIZE(+4) buffers from exactly-fitting to 64 KiB x offloaded/caller-split x try_send/send; oracle: stride-reassembled pieces == segments byte for byte, ecn/addr/dst_ip as described, 0 < stride <= len <= buffer, nothing extra, Ok => arrival (3 attempts); non-trivial = offloaded with short last segment, or coalesced receive, or ECN + src_ip + offload; distinct by scenario hash",
        arb_scenario,
        report.cases(1_200_000, 36_000_000),
        case,
    );
    run_prop(
        report,
        "c19-fallback",
        "same scenarios after the sender state was driven into its fallback (an offloaded transmit refused with EINVAL => max_gso_segments() == 1, no IP_TOS cmsg): the refused transmit delivers nothing, then caller-split plain sends arrive unmerged, untruncated, complete (ECN may be absent on IPv4 by design)",
        arb_scenario,
        report.cases(180_000, 5_400_000),
        case_degraded,
    );
    run_prop(
        report,
        "c19-foreign",
        "datagrams from a plain socket whose traffic class carries a DSCP value next to the ECN bits (IPv4, IPv6, IPv4 into a dual-stack socket; DSCP 0..63; all four ECN values; 1-3 datagrams of 1..1452 bytes) received through quinn-udp: payload, length, source address and ECN codepoint as sent; non-trivial = DSCP and ECN both non-zero",
        arb_foreign,
        report.cases(40_000, 1_200_000),
        case_foreign,
    );
    report.finish("generated-input search (proptest) over real loopback sockets plus an exhaustive enumeration of the option combinations; the unsupported-offload clause is covered only via the library's EINVAL fallback path")
}
