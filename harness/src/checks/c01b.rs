//! C01 (sub-check c01b) — the stream reassembly buffer against a byte-set model.
//!
//! Generated histories of chunk arrivals (any overlap, duplicates, data below the read position,
//! retransmissions framed differently from the original) interleaved with ordered reads of any
//! `max_length`, one switch to unordered reads, and unordered reads. Oracle: every byte handed out
//! is the byte written at that offset, has arrived, and has never been handed out before; an ordered
//! read yields data exactly when the byte at the read position has arrived, starts there and respects
//! `max_length`; an ordered read after an unordered one is refused; at the end every byte that
//! arrived has been handed out exactly once.

use crate::core::*;
use bytes::Bytes;
use proptest::prelude::*;
use quinn_proto::VerifAssembler;
use serde::{Deserialize, Serialize};

#[derive(Clone, Debug, Serialize, Deserialize, PartialEq)]
pub enum AOp {
    /// the stream bytes [off, off + len) arrive in one frame
    Insert { off: u16, len: u16, slack: u8 },
    /// a frame starting `back` bytes below the end of the contiguous data received so far
    InsertNear { back: u8, len: u16 },
    ReadOrdered { max: u16 },
    ReadUnordered { max: u16 },
}

#[derive(Clone, Debug, Serialize, Deserialize, PartialEq)]
pub struct AHist {
    pub key: u64,
    /// reads before this step are ordered whatever the op says (so that the switch to unordered
    /// reads happens after a generated amount of ordered history)
    pub switch_at: u8,
    pub ops: Vec<AOp>,
}

fn byte_at(key: u64, i: u64) -> u8 {
    (mix(key, i / 8) >> ((i % 8) * 8)) as u8
}

pub fn arb_hist() -> impl Strategy<Value = AHist> {
    // offsets cluster around a few boundaries so that chunks overlap, abut and repeat
    let off = prop_oneof![3 => 0u16..64, 3 => 0u16..600, 1 => 0u16..4000];
    let len = prop_oneof![4 => 1u16..16, 3 => 1u16..200, 1 => 200u16..1500];
    let max = prop_oneof![3 => 1u16..16, 2 => 16u16..400, 2 => Just(u16::MAX)];
    let op = prop_oneof![
        4 => (off, len.clone(), 0u8..64).prop_map(|(off, len, slack)| AOp::Insert { off, len, slack }),
        3 => (prop_oneof![2 => Just(0u8), 2 => 0u8..40, 1 => any::<u8>()], len).prop_map(|(back, len)| AOp::InsertNear { back, len }),
        3 => max.clone().prop_map(|max| AOp::ReadOrdered { max }),
        2 => max.prop_map(|max| AOp::ReadUnordered { max }),
    ];
    (any::<u64>(), 0u8..70, prop::collection::vec(op, 1..60)).prop_map(|(key, switch_at, ops)| AHist { key, switch_at, ops })
}

pub fn case(h: &AHist) -> CaseOut {
    const N: usize = 6000;
    let mut a = VerifAssembler::new();
    let mut arrived = vec![false; N];
    let mut handed = vec![false; N];
    let mut read_pos = 0usize; // ordered read position
    let mut unordered = false;
    let mut labels: Vec<&'static str> = vec![];
    let (mut stale, mut switched_with_stale, mut overlaps) = (false, false, false);
    let fail = |sig: &str, msg: String| CaseOut::fail(sig, msg);
    // one read call, judged against the model
    let mut do_read = |a: &mut VerifAssembler, ordered: bool, max: usize, arrived: &Vec<bool>, handed: &mut Vec<bool>, read_pos: &mut usize, step: usize| -> Result<bool, CaseOut> {
        match a.read(max, ordered) {
            None => {
                if ordered && *read_pos < N && arrived[*read_pos] {
                    return Err(fail("c01/assembler/ordered-read-stalls", format!("step {step}: ordered read(max {max}) returned nothing although byte {} has arrived", *read_pos)));
                }
                Ok(false)
            }
            Some(c) => {
                let (o, l) = (c.offset as usize, c.bytes.len());
                if l == 0 {
                    return Err(fail("c01/empty-chunk", format!("step {step}: empty chunk at offset {o}")));
                }
                if l > max {
                    return Err(fail("c01/max-length", format!("step {step}: chunk of {l} bytes for max_length {max}")));
                }
                if ordered && o != *read_pos {
                    return Err(fail("c01/assembler/ordered-gap", format!("step {step}: ordered read returned offset {o}, the read position is {}", *read_pos)));
                }
                for i in 0..l {
                    let p = o + i;
                    if p >= N || !arrived[p] {
                        return Err(fail("c01/assembler/invented-byte", format!("step {step}: byte {p} was handed out but never arrived")));
                    }
                    if c.bytes[i] != byte_at(h.key, p as u64) {
                        return Err(fail("c01/content", format!("step {step}: byte {p} differs from what was written")));
                    }
                    if handed[p] {
                        return Err(fail("c01/duplicate-bytes", format!("step {step}: byte {p} handed out a second time (chunk [{o}, {}), {} read)", o + l, if ordered { "ordered" } else { "unordered" })));
                    }
                    handed[p] = true;
                }
                if ordered {
                    *read_pos += l;
                }
                Ok(true)
            }
        }
    };
    for (step, op) in h.ops.iter().enumerate() {
        let frontier = arrived.iter().position(|x| !*x).unwrap_or(N);
        let op = match op {
            AOp::ReadUnordered { max } if step < h.switch_at as usize => &AOp::ReadOrdered { max: *max },
            AOp::InsertNear { back, len } => &AOp::Insert { off: frontier.saturating_sub(*back as usize).min(N - 1) as u16, len: *len, slack: 0 },
            o => o,
        };
        match op {
            AOp::Insert { off, len, slack } => {
                let (o, l) = (*off as usize, (*len as usize).min(N - *off as usize).max(1));
                let data: Vec<u8> = (o..o + l).map(|i| byte_at(h.key, i as u64)).collect();
                if arrived[o..o + l].iter().any(|x| *x) {
                    overlaps = true;
                }
                if !unordered && o < read_pos {
                    stale = true;
                }
                if !a.insert(o as u64, Bytes::from(data), l + *slack as usize) {
                    return CaseOut::discard("too many chunks");
                }
                for x in &mut arrived[o..o + l] {
                    *x = true;
                }
            }
            AOp::InsertNear { .. } => unreachable!(),
            AOp::ReadOrdered { max } => {
                let ok = a.ensure_ordering(true);
                if unordered {
                    if ok {
                        return fail("c01/assembler/ordered-after-unordered", format!("step {step}: an ordered read was admitted after an unordered one"));
                    }
                    continue;
                }
                if !ok {
                    return fail("c01/assembler/ordered-refused", format!("step {step}: ordered read refused although no unordered read was made"));
                }
                if let Err(o) = do_read(&mut a, true, (*max as usize).max(1), &arrived, &mut handed, &mut read_pos, step) {
                    return o;
                }
            }
            AOp::ReadUnordered { max } => {
                if !unordered {
                    unordered = true;
                    labels.push("switched-to-unordered");
                    if stale {
                        switched_with_stale = true;
                    }
                }
                if !a.ensure_ordering(false) {
                    return fail("c01/assembler/unordered-refused", format!("step {step}: unordered read refused"));
                }
                if let Err(o) = do_read(&mut a, false, (*max as usize).max(1), &arrived, &mut handed, &mut read_pos, step) {
                    return o;
                }
            }
        }
    }
    // drain: everything that arrived is handed out exactly once
    let ordered = !unordered;
    let _ = a.ensure_ordering(ordered);
    for extra in 0..20_000 {
        match do_read(&mut a, ordered, usize::MAX, &arrived, &mut handed, &mut read_pos, h.ops.len() + extra) {
            Ok(true) => {}
            Ok(false) => break,
            Err(o) => return o,
        }
    }
    let due = |p: usize| if ordered { p < arrived.iter().position(|x| !*x).unwrap_or(N) } else { true };
    if let Some(p) = (0..N).find(|p| arrived[*p] && !handed[*p] && due(*p)) {
        return fail("c01/assembler/lost-byte", format!("byte {p} arrived but was never handed out ({} reads to the end)", if ordered { "ordered" } else { "unordered" }));
    }
    if overlaps {
        labels.push("overlapping-arrivals");
    }
    if stale {
        labels.push("arrival-below-read-position");
    }
    if switched_with_stale {
        labels.push("switch-after-stale-arrival");
    }
    CaseOut { verdict: Verdict::Pass, labels, nontrivial: overlaps && handed.iter().any(|x| *x), summary: Some(serde_json::json!({"ops": h.ops.len(), "arrived": arrived.iter().filter(|x| **x).count(), "unordered": unordered})) }
}
