//! C05 — a sender never exceeds the limits its peer advertised.
//!
//! An independent credit ledger is kept by the wire observer for the receiver of the credit: the
//! largest limit contained in the peer's transport parameters or in MAX_* frames inside datagrams
//! that were actually delivered to the sender. Every packet leaving the sender is checked
//! against it.

use super::xfer::*;
use crate::core::*;
use crate::simnet::*;
use crate::spec::*;
use std::collections::BTreeMap;

#[derive(Default, Debug)]
struct Ledger {
    max_data: u64,
    max_streams: [u64; 2], // [uni, bidi]
    stream_limit: BTreeMap<u64, u64>,
    initial_stream_limit: u64,
    highest: BTreeMap<u64, u64>,
    final_size: BTreeMap<u64, u64>,
}

fn check_trace(x: &Xfer, w: &World) -> (Option<(String, String)>, bool) {
    // dgram id -> packets
    let mut dg: BTreeMap<u64, (usize, Vec<PktRec>)> = BTreeMap::new();
    // ledger per connection index
    let mut led: BTreeMap<usize, Ledger> = BTreeMap::new();
    let mut credit_frame_faulted = false;
    for (k, c) in w.conns.iter().enumerate() {
        let peer_tc = if c.side.is_client() { &x.net.server_tc } else { &x.net.client_tc };
        led.insert(
            k,
            Ledger {
                max_data: peer_tc.recv_window,
                max_streams: [peer_tc.max_uni, peer_tc.max_bidi],
                initial_stream_limit: peer_tc.stream_recv_window,
                ..Ledger::default()
            },
        );
    }
    for r in &w.trace {
        match r {
            Rec::Tx { conn, dgrams, t, .. } => {
                let side_server = w.conns[*conn].side.is_server();
                for d in dgrams {
                    dg.insert(d.id, (*conn, d.pkts.clone()));
                    for p in &d.pkts {
                        let Some(frames) = &p.frames else { continue };
                        for f in frames {
                            if matches!(f, OF::MaxData(_) | OF::MaxStreamData { .. } | OF::MaxStreams { .. }) && d.fate != "deliver" {
                                credit_frame_faulted = true;
                            }
                            let l = led.get_mut(conn).unwrap();
                            let (id, end, is_reset) = match f {
                                OF::Stream { id, offset, len, .. } => (*id, offset + *len as u64, false),
                                OF::ResetStream { id, final_size, .. } => (*id, *final_size, true),
                                _ => continue,
                            };
                            let limit = l.stream_limit.get(&id).copied().unwrap_or(0).max(l.initial_stream_limit);
                            if end > limit {
                                return (
                                    Some((
                                        "c05/stream-limit".into(),
                                        format!("t={t} conn {conn}: frame {f:?} reaches offset {end} on stream {id} but the largest stream limit that reached this sender is {limit}"),
                                    )),
                                    credit_frame_faulted,
                                );
                            }
                            if is_reset {
                                let hi = l.highest.get(&id).copied().unwrap_or(0);
                                if end < hi {
                                    return (
                                        Some(("c05/reset-final-size".into(), format!("t={t} conn {conn}: RESET_STREAM final size {end} below highest offset sent {hi} on stream {id}"))),
                                        credit_frame_faulted,
                                    );
                                }
                                if let Some(prev) = l.final_size.insert(id, end) {
                                    if prev != end {
                                        return (Some(("c05/final-size-changed".into(), format!("stream {id} final size {prev} then {end}"))), credit_frame_faulted);
                                    }
                                }
                            }
                            let h = l.highest.entry(id).or_insert(0);
                            *h = (*h).max(end);
                            let total: u64 = l.highest.values().sum();
                            if total > l.max_data {
                                return (
                                    Some((
                                        "c05/connection-limit".into(),
                                        format!("t={t} conn {conn}: sum of highest offsets {total} exceeds the largest MAX_DATA that reached this sender ({})", l.max_data),
                                    )),
                                    credit_frame_faulted,
                                );
                            }
                            // stream count: only for streams this sender initiated
                            let initiated_by_server = id & 1 == 1;
                            if initiated_by_server == side_server {
                                let bidi = id & 2 == 0;
                                let idx = id >> 2;
                                if idx >= l.max_streams[bidi as usize] {
                                    return (
                                        Some((
                                            "c05/stream-count".into(),
                                            format!("t={t} conn {conn}: stream {id} (index {idx}) used but the largest MAX_STREAMS that reached this sender is {}", l.max_streams[bidi as usize]),
                                        )),
                                        credit_frame_faulted,
                                    );
                                }
                            }
                        }
                    }
                }
            }
            Rec::Rx { routed: Routed::Conn(k), dgram_id, corrupted: false, .. } => {
                if let Some((_from, pkts)) = dg.get(dgram_id) {
                    let l = led.get_mut(k).unwrap();
                    for p in pkts {
                        let Some(frames) = &p.frames else { continue };
                        for f in frames {
                            match f {
                                OF::MaxData(v) => l.max_data = l.max_data.max(*v),
                                OF::MaxStreamData { id, max } => {
                                    let e = l.stream_limit.entry(*id).or_insert(0);
                                    *e = (*e).max(*max);
                                }
                                OF::MaxStreams { bidi, max } => {
                                    let e = &mut l.max_streams[*bidi as usize];
                                    *e = (*e).max(*max);
                                }
                                _ => {}
                            }
                        }
                    }
                }
            }
            _ => {}
        }
    }
    (None, credit_frame_faulted)
}

pub fn gen() -> XferGen {
    XferGen { max_faults: 80, aux_ops: 5, rustls_share: 1, max_streams: 6, ..XferGen::default() }
}

pub fn case(x: &Xfer) -> CaseOut {
    if x.net.crypto != CryptoKind::Sim {
        return CaseOut::discard("wire not observable under real TLS");
    }
    let shrink = |l: &SideLoad| l.ops.iter().any(|o| matches!(o.op, AuxOp::SetSendWindow(_)));
    let (c_shrink, s_shrink) = (shrink(&x.client), shrink(&x.server));
    let mut sw_viol = None;
    let r = run_xfer_mon(x, 60_000_000, false, &mut |w| {
        // locally configured bound on unacknowledged data (only when it is never changed at run time)
        for c in &w.conns {
            let changed = if c.side.is_client() { c_shrink } else { s_shrink };
            if !changed && sw_viol.is_none() && c.app.stats.bytes_read + 1 > 0 {
                let p = c.c.verif_probe();
                if p.streams.unacked_data > p.streams.send_window {
                    sw_viol = Some(format!("{:?}: unacked_data {} exceeds send_window {}", c.side, p.streams.unacked_data, p.streams.send_window));
                }
            }
        }
    });
    if r.world.hit_step_limit {
        return CaseOut::inconclusive("step limit");
    }
    if let Some(m) = sw_viol {
        return CaseOut::fail("c05/send-window", m);
    }
    for v in &r.viol {
        if v.sig.starts_with("c05/") || v.sig.starts_with("drive/") {
            return CaseOut::fail(v.sig.clone(), v.msg.clone());
        }
    }
    // honest peers must never see flow control errors
    for c in &r.world.conns {
        for l in &c.app.lost {
            if l.contains("FLOW_CONTROL_ERROR") || l.contains("STREAM_LIMIT_ERROR") || l.contains("FINAL_SIZE_ERROR") {
                return CaseOut::fail("c05/peer-reported-violation", format!("{:?} lost the connection: {l}", c.side));
            }
        }
    }
    let (viol, credit_faulted) = check_trace(x, &r.world);
    if let Some((sig, msg)) = viol {
        return CaseOut::fail(sig, msg);
    }
    let blocked = r.world.conns.iter().any(|c| c.app.stats.write_blocked > 0 || c.app.stats.partial_writes > 0 || c.app.stats.open_blocked > 0);
    let mut labels = vec![];
    if blocked {
        labels.push("credit-limited");
    }
    if credit_faulted {
        labels.push("credit-frame-faulted");
    }
    if r.world.conns.iter().any(|c| c.app.stats.partial_writes > 0) {
        labels.push("partial-write");
    }
    if r.world.conns.iter().any(|c| c.app.stats.open_blocked > 0) {
        labels.push("open-blocked");
    }
    if r.world.conns.iter().any(|c| c.app.stats.resets_seen > 0) {
        labels.push("reset");
    }
    if r.completed {
        labels.push("completed");
    }
    let f = trace_facts(&r.world);
    if f.stream_retransmit {
        labels.push("retransmit");
    }
    CaseOut { verdict: Verdict::Pass, labels, nontrivial: blocked && credit_faulted, summary: Some(summary(x, &r, &f)) }
}

pub fn run(report: &Report) -> i32 {
    report.assume("the ledger credits a limit as soon as the datagram carrying it was delivered to the sender's endpoint (over-approximates what the sender processed; sound for the sender)");
    report.assume("SimCrypto only (frames must be visible to the observer); 0-RTT limits are covered by C17");
    run_prop(
        report,
        "c05",
        "proptest-generated transfers with limits around 0/1/varint boundaries and run-time window changes, credit frames dropped/duplicated/reordered by the link; oracle: observer-side credit ledger per sender (stream, connection, stream-count limits; RESET_STREAM final sizes; send_window bound); non-trivial = a write/open was limited by credit AND a datagram carrying MAX_DATA/MAX_STREAM_DATA/MAX_STREAMS was faulted",
        || arb_xfer(gen()),
        report.cases(24_000, 800_000),
        case,
    );
    run_prop(
        report,
        "c05b-foreign-peer",
        "the peer is the harness-written puppet advertising generated, mutually different limits (three per-stream windows, max_data, stream counts of 0..5), opening streams towards the victim and raising limits with MAX_STREAM_DATA / MAX_DATA / MAX_STREAMS; the victim application writes/finishes/resets on every stream it may write to; oracle: ledger of what the puppet has sent, per kind of stream; non-trivial = a write was cut short by a limit and stream data was sent",
        super::c05b::arb_case,
        report.cases(300_000, 10_000_000),
        super::c05b::case,
    );
    report.finish("generated-input search (proptest) against an independent credit ledger")
}
