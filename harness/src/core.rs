//! Framework shared by every check: options, the multi-threaded proptest driver, panic capture,
//! known-finding handling, replay files and the evidence writer.

use proptest::strategy::{Strategy, ValueTree};
use proptest::test_runner::{Config, RngAlgorithm, RngSeed, TestCaseError, TestError, TestRunner};
use serde::{de::DeserializeOwned, Deserialize, Serialize};
use serde_json::{json, Value};
use std::cell::RefCell;
use std::collections::{BTreeMap, HashSet};
use std::fmt::Debug;
use std::hash::{Hash, Hasher};
use std::path::PathBuf;
use std::sync::atomic::{AtomicBool, AtomicU64, Ordering};
use std::sync::Mutex;
use std::time::Instant;

/// Root directory for evidence, replays and known findings (QV_ROOT overrides it for sensitivity
/// runs against scratch copies so they do not touch /verif)
pub fn verif_root() -> String {
    std::env::var("QV_ROOT").unwrap_or_else(|_| "/verif".to_string())
}

#[derive(Clone, Copy, Debug, PartialEq, Eq)]
pub enum Tier {
    Quick,
    Thorough,
}

impl Tier {
    pub fn name(self) -> &'static str {
        match self {
            Tier::Quick => "quick",
            Tier::Thorough => "thorough",
        }
    }
    /// Pick the case count for this tier
    pub fn pick(self, quick: u64, thorough: u64) -> u64 {
        match self {
            Tier::Quick => quick,
            Tier::Thorough => thorough,
        }
    }
}

#[derive(Clone, Debug)]
pub struct Opts {
    pub prop: String,
    pub tier: Tier,
    pub seed: u64,
    pub replay: Option<PathBuf>,
    /// Multiply every case count by this factor (testing / sensitivity runs)
    pub scale: f64,
    pub threads: usize,
    /// Only run the named sub-check
    pub only: Option<String>,
    /// Do not write evidence (used by sensitivity sweeps)
    pub no_evidence: bool,
}

/// Result of executing one generated case
#[derive(Debug, Clone)]
pub struct CaseOut {
    pub verdict: Verdict,
    pub labels: Vec<&'static str>,
    pub nontrivial: bool,
    /// Short human-readable summary of the case for evidence samples
    pub summary: Option<Value>,
}

#[derive(Debug, Clone, PartialEq)]
pub enum Verdict {
    Pass,
    /// The case fell outside the property's domain (counted, never an alarm)
    Discard(String),
    /// `sig` is the stable signature of the failure (used for known findings), `msg` the details
    Fail { sig: String, msg: String },
    /// Harness limit reached (step bound etc.)
    Inconclusive(String),
}

impl CaseOut {
    pub fn pass() -> Self {
        Self { verdict: Verdict::Pass, labels: vec![], nontrivial: false, summary: None }
    }
    pub fn fail(sig: impl Into<String>, msg: impl Into<String>) -> Self {
        Self {
            verdict: Verdict::Fail { sig: sig.into(), msg: msg.into() },
            labels: vec![],
            nontrivial: false,
            summary: None,
        }
    }
    pub fn discard(why: impl Into<String>) -> Self {
        Self { verdict: Verdict::Discard(why.into()), labels: vec![], nontrivial: false, summary: None }
    }
    pub fn inconclusive(why: impl Into<String>) -> Self {
        Self {
            verdict: Verdict::Inconclusive(why.into()),
            labels: vec![],
            nontrivial: false,
            summary: None,
        }
    }
}

// ---------------------------------------------------------------------------------------------
// Panic capture
// ---------------------------------------------------------------------------------------------

thread_local! {
    static LAST_PANIC: RefCell<Option<PanicInfo>> = const { RefCell::new(None) };
    static CAPTURE: RefCell<bool> = const { RefCell::new(false) };
}

#[derive(Debug, Clone)]
pub struct PanicInfo {
    pub msg: String,
    pub file: String,
    pub line: u32,
}

impl PanicInfo {
    /// Whether the panic originated in code under test (quinn) rather than in the harness
    pub fn in_quinn(&self) -> bool {
        self.file.contains("/repo/") || self.file.starts_with("quinn") || self.file.contains("quinn-proto/src/") || self.file.contains("quinn/src/") || self.file.contains("quinn-udp/src/")
    }
    pub fn is_overflow(&self) -> bool {
        self.msg.contains("attempt to") && self.msg.contains("overflow")
    }
    /// Stable identification of the panic site: file plus the text of the source line (robust
    /// against line-number shifts caused by unrelated edits); falls back to the line number.
    pub fn site(&self) -> String {
        let f = self.file.rsplit("/repo/").next().unwrap_or(&self.file).to_string();
        // scratch copies used for sensitivity runs live elsewhere: strip everything up to the crate dir
        let f = match f.find("quinn-proto/").or_else(|| f.find("quinn-udp/")).or_else(|| f.find("quinn/src")) {
            Some(i) => f[i..].to_string(),
            None => f,
        };
        if let Ok(src) = std::fs::read_to_string(&self.file) {
            if let Some(l) = src.lines().nth(self.line.saturating_sub(1) as usize) {
                let t: String = l.split_whitespace().collect::<Vec<_>>().join(" ");
                let t: String = t.chars().take(70).collect();
                return format!("{f}:[{t}]");
            }
        }
        format!("{}:{}", f, self.line)
    }
}

thread_local! {
    /// The case the current worker is executing: (property, check, pointer to the value, serializer).
    /// Only read by the panic hook when a panic cannot unwind (the process is about to abort).
    static CURRENT_CASE: std::cell::Cell<Option<(&'static str, &'static str, *const (), fn(*const ()) -> Value)>> = const { std::cell::Cell::new(None) };
}

fn ser_case<T: Serialize>(p: *const ()) -> Value {
    // SAFETY: set_current_case stores a pointer to a value that outlives the case execution and clears it afterwards
    serde_json::to_value(unsafe { &*(p as *const T) }).unwrap_or(Value::Null)
}

fn leak_str(s: &str) -> &'static str {
    static POOL: Mutex<Vec<&'static str>> = Mutex::new(Vec::new());
    let mut p = POOL.lock().unwrap();
    if let Some(x) = p.iter().find(|x| **x == s) {
        return x;
    }
    let l: &'static str = Box::leak(s.to_string().into_boxed_str());
    p.push(l);
    l
}

struct CurrentCaseGuard;
impl Drop for CurrentCaseGuard {
    fn drop(&mut self) {
        CURRENT_CASE.with(|c| c.set(None));
    }
}

fn set_current_case<T: Serialize>(prop: &str, check: &str, v: &T) -> CurrentCaseGuard {
    CURRENT_CASE.with(|c| c.set(Some((leak_str(prop), leak_str(check), v as *const T as *const (), ser_case::<T>))));
    CurrentCaseGuard
}

pub fn install_panic_hook() {
    let default = std::panic::take_hook();
    std::panic::set_hook(Box::new(move |info| {
        // (a second panic on a thread whose first, captured panic is still unwinding)
        let second = CAPTURE.with(|c| *c.borrow()) && LAST_PANIC.with(|p| p.borrow().is_some()) && std::thread::panicking();
        if second {
            // A panic that cannot unwind (typically a second panic in a destructor that runs while the
            // first one unwinds) aborts the process: save the case and report before that happens.
            let msg = info.payload().downcast_ref::<&str>().map(|s| s.to_string()).or_else(|| info.payload().downcast_ref::<String>().cloned()).unwrap_or_else(|| "<non-string panic>".into());
            let (file, line) = info.location().map(|l| (l.file().to_string(), l.line())).unwrap_or_default();
            let first = LAST_PANIC.with(|p| p.borrow().clone());
            let pi = PanicInfo { msg: msg.clone(), file, line };
            // the first panic is the cause; the second only tells where the cleanup failed
            let cause = first.unwrap_or_else(|| pi.clone());
            if let Some((prop, check, ptr, ser)) = CURRENT_CASE.with(|c| c.get()) {
                let scenario = ser(ptr);
                let h = hash64(&scenario.to_string()) & 0xffff_ffff_ffff;
                let dir = std::path::PathBuf::from(verif_root()).join("replays");
                let _ = std::fs::create_dir_all(&dir);
                let in_quinn = cause.in_quinn() || pi.in_quinn();
                let sig = format!("abort@{}", if cause.in_quinn() { cause.site() } else { pi.site() });
                let path = dir.join(format!("{prop}-{check}-{h:012x}.json"));
                let f = Failure { property: prop.to_string(), check: check.to_string(), sig: sig.clone(), msg: format!("the process was about to abort: panic '{}' at {}:{} followed by a panic that cannot unwind '{}' at {}:{}", cause.msg, cause.file, cause.line, pi.msg, pi.file, pi.line), scenario };
                let _ = std::fs::write(&path, serde_json::to_string_pretty(&f).unwrap_or_default());
                if in_quinn {
                    println!("VIOLATION property={prop} replay={}\n  check={check} sig={sig}\n  | {}", path.display(), f.msg);
                    std::process::exit(1);
                }
                println!("INCONCLUSIVE: harness panic that cannot unwind at {}:{}: {} (case saved as {})", pi.file, pi.line, pi.msg, path.display());
                std::process::exit(2);
            }
        }
        let capturing = CAPTURE.with(|c| *c.borrow());
        let msg = if let Some(s) = info.payload().downcast_ref::<&str>() {
            s.to_string()
        } else if let Some(s) = info.payload().downcast_ref::<String>() {
            s.clone()
        } else {
            "<non-string panic>".to_string()
        };
        let (file, line) = info
            .location()
            .map(|l| (l.file().to_string(), l.line()))
            .unwrap_or_default();
        if capturing {
            // A panic raised inside the standard library (e.g. the assertion in `Ord::clamp`, slice
            // indexing, `Instant + Duration`) is attributed to the innermost frame that is not part of
            // std/core: quinn if that frame lies in quinn's sources, the harness otherwise.
            let (mut file, mut line) = (file, line);
            let in_q = |f: &str| f.contains("/repo/") || f.contains("quinn-proto/src/") || f.contains("quinn/src/") || f.contains("quinn-udp/src/");
            // (the harness's own implementation of quinn's crypto traits counts like the standard library: a
            // key that is handed too short a buffer fails on behalf of its caller)
            let shim = file.ends_with("simcrypto.rs");
            if (!in_q(&file) && !file.contains("/harness/src/") && !file.contains("/verif/")) || shim {
                let bt = std::backtrace::Backtrace::force_capture().to_string();
                if std::env::var("QV_DEBUG_BT").is_ok() {
                    eprintln!("--- backtrace of captured panic ---\n{bt}");
                }
                // frames: "  N: symbol" optionally followed by "at file:line:col"; skip everything up to
                // the panic machinery (which includes this hook), then std/core frames
                let mut frames: Vec<(String, String)> = vec![];
                for l in bt.lines() {
                    let t = l.trim();
                    if let Some(at) = t.strip_prefix("at ") {
                        if let Some(last) = frames.last_mut() {
                            last.1 = at.to_string();
                        }
                    } else if let Some((_, sym)) = t.split_once(": ") {
                        frames.push((sym.to_string(), String::new()));
                    }
                }
                let mut start = frames.iter().position(|(sym, _)| sym.contains("rust_begin_unwind")).map_or(0, |i| i + 1);
                while frames.get(start).is_some_and(|(sym, _)| sym.contains("core::panicking::")) {
                    start += 1;
                }
                for (sym, at) in frames.iter().skip(start) {
                    let std_frame = at.contains("simcrypto.rs") || sym.contains("simcrypto::") || at.starts_with("/rustc/") || at.contains("/library/") || sym.starts_with("core::") || sym.starts_with("std::") || sym.starts_with("alloc::") || sym.starts_with("<core::") || sym.starts_with("<std::") || sym.starts_with("<alloc::");
                    if std_frame {
                        continue;
                    }
                    let mut parts = at.rsplitn(3, ':');
                    let _col = parts.next();
                    let ln = parts.next().and_then(|x| x.parse::<u32>().ok()).unwrap_or(0);
                    let f = parts.next().unwrap_or(at).to_string();
                    if in_q(&f) || sym.starts_with("quinn_proto::") || sym.starts_with("quinn::") || sym.starts_with("quinn_udp::") || sym.starts_with("<quinn") {
                        if in_q(&f) {
                            file = f;
                            line = ln;
                        } else {
                            file = format!("quinn:{sym}");
                            line = 0;
                        }
                    }
                    break;
                }
            }
            LAST_PANIC.with(|p| *p.borrow_mut() = Some(PanicInfo { msg, file, line }));
        } else {
            default(info);
        }
    }));
}

/// Run `f`, converting a panic into `Err(PanicInfo)`
pub fn catch<R>(f: impl FnOnce() -> R) -> Result<R, PanicInfo> {
    let prev = CAPTURE.with(|c| std::mem::replace(&mut *c.borrow_mut(), true));
    LAST_PANIC.with(|p| *p.borrow_mut() = None);
    let r = std::panic::catch_unwind(std::panic::AssertUnwindSafe(f));
    CAPTURE.with(|c| *c.borrow_mut() = prev);
    match r {
        Ok(v) => Ok(v),
        Err(_) => Err(LAST_PANIC.with(|p| p.borrow_mut().take()).unwrap_or(PanicInfo {
            msg: "<panic without info>".into(),
            file: String::new(),
            line: 0,
        })),
    }
}

/// Panic policy: any panic raised inside quinn code while executing a generated case (arithmetic
/// overflow included: the harness is built with overflow-checks on precisely to make wrapping
/// visible) is a violation with signature `panic@<file>:<line>`; a panic in the harness itself is
/// a harness bug and reported as inconclusive.
pub fn panic_to_case(p: PanicInfo, _strict: bool) -> CaseOut {
    if p.in_quinn() {
        CaseOut::fail(format!("panic@{}", p.site()), format!("panic in quinn at {}: {}", p.site(), p.msg))
    } else {
        CaseOut::inconclusive(format!("harness panic at {}:{}: {}", p.file, p.line, p.msg))
    }
}

// ---------------------------------------------------------------------------------------------
// Known findings
// ---------------------------------------------------------------------------------------------

#[derive(Debug, Clone, Serialize, Deserialize)]
pub struct KnownFinding {
    pub property: String,
    /// Exact failure signature this entry covers
    pub signature: String,
    /// "known" (still present, suppressed with KNOWN-FINDING line) or "fixed" (suppresses nothing)
    pub status: String,
    pub what: String,
    #[serde(default)]
    pub commit: Option<String>,
}

pub fn load_known() -> Vec<KnownFinding> {
    let p = format!("{}/known_findings.json", verif_root());
    match std::fs::read_to_string(&p) {
        Ok(s) => serde_json::from_str(&s).expect("known_findings.json must parse"),
        Err(_) => vec![],
    }
}

// ---------------------------------------------------------------------------------------------
// Report (accumulates over sub-checks, written as evidence at the end)
// ---------------------------------------------------------------------------------------------

#[derive(Debug, Clone, Serialize, Deserialize)]
pub struct Failure {
    pub property: String,
    pub check: String,
    pub sig: String,
    pub msg: String,
    pub scenario: Value,
}

pub struct Report {
    pub opts: Opts,
    pub started: Instant,
    pub known: Vec<KnownFinding>,
    pub known_hits: Mutex<BTreeMap<String, u64>>,
    pub subchecks: Mutex<Vec<Value>>,
    pub evaluations: AtomicU64,
    pub nontrivial: AtomicU64,
    pub discards: AtomicU64,
    pub inconclusive: AtomicU64,
    pub samples: Mutex<Vec<Value>>,
    pub rules: Mutex<Vec<String>>,
    pub assumptions: Mutex<Vec<String>>,
    pub failures: Mutex<Vec<(Failure, PathBuf)>>,
    pub notes: Mutex<Vec<String>>,
    pub exhaustive_all: AtomicBool,
    pub any_sub: AtomicBool,
}

impl Report {
    pub fn new(opts: Opts) -> Self {
        let known = load_known().into_iter().filter(|k| k.property == opts.prop).collect();
        Self {
            opts,
            started: Instant::now(),
            known,
            known_hits: Mutex::new(BTreeMap::new()),
            subchecks: Mutex::new(vec![]),
            evaluations: AtomicU64::new(0),
            nontrivial: AtomicU64::new(0),
            discards: AtomicU64::new(0),
            inconclusive: AtomicU64::new(0),
            samples: Mutex::new(vec![]),
            rules: Mutex::new(vec![]),
            assumptions: Mutex::new(vec![]),
            failures: Mutex::new(vec![]),
            notes: Mutex::new(vec![]),
            exhaustive_all: AtomicBool::new(true),
            any_sub: AtomicBool::new(false),
        }
    }

    pub fn cases(&self, quick: u64, thorough: u64) -> u64 {
        ((self.opts.tier.pick(quick, thorough) as f64) * self.opts.scale).max(1.0) as u64
    }

    pub fn wants(&self, sub: &str) -> bool {
        self.opts.only.as_deref().map_or(true, |o| o == sub)
    }

    pub fn is_known(&self, sig: &str) -> bool {
        self.known.iter().any(|k| k.status == "known" && k.signature == sig)
    }

    pub fn assume(&self, s: &str) {
        let mut a = self.assumptions.lock().unwrap();
        if !a.iter().any(|x| x == s) {
            a.push(s.to_string());
        }
    }

    pub fn note(&self, s: String) {
        self.notes.lock().unwrap().push(s);
    }

    pub fn violations(&self) -> usize {
        self.failures.lock().unwrap().len()
    }

    fn record_failure(&self, f: Failure) {
        let mut h = std::collections::hash_map::DefaultHasher::new();
        f.check.hash(&mut h);
        f.scenario.to_string().hash(&mut h);
        let name = format!("{}-{}-{:012x}.json", f.property, f.check, h.finish() & 0xffff_ffff_ffff);
        let dir = PathBuf::from(format!("{}/replays", verif_root()));
        let _ = std::fs::create_dir_all(&dir);
        let path = dir.join(name);
        let _ = std::fs::write(&path, serde_json::to_string_pretty(&f).unwrap());
        println!("VIOLATION property={} replay={}", f.property, path.display());
        println!("  check={} sig={}", f.check, f.sig);
        for l in f.msg.lines().take(40) {
            println!("  | {l}");
        }
        self.failures.lock().unwrap().push((f, path));
    }

    /// Record the outcome of an enumerated (non-proptest) sub-check
    pub fn add_sub(&self, sub: SubStats) {
        self.any_sub.store(true, Ordering::Relaxed);
        self.evaluations.fetch_add(sub.evaluations, Ordering::Relaxed);
        self.nontrivial.fetch_add(sub.distinct_nontrivial, Ordering::Relaxed);
        self.discards.fetch_add(sub.discards, Ordering::Relaxed);
        self.inconclusive.fetch_add(sub.inconclusive, Ordering::Relaxed);
        if !sub.exhaustive {
            self.exhaustive_all.store(false, Ordering::Relaxed);
        }
        self.rules.lock().unwrap().push(format!("[{}] {}", sub.name, sub.rule));
        {
            let mut s = self.samples.lock().unwrap();
            for x in sub.samples.iter().take(4) {
                s.push(json!({"check": sub.name, "case": x}));
            }
        }
        self.subchecks.lock().unwrap().push(json!({
            "name": sub.name,
            "evaluations": sub.evaluations,
            "distinct_nontrivial": sub.distinct_nontrivial,
            "discards": sub.discards,
            "inconclusive": sub.inconclusive,
            "exhaustive": sub.exhaustive,
            "classes": sub.classes,
            "wall_s": sub.wall_s,
        }));
    }

    pub fn fail_direct(&self, check: &str, sig: &str, msg: String, scenario: Value) {
        if self.is_known(sig) {
            *self.known_hits.lock().unwrap().entry(sig.to_string()).or_insert(0) += 1;
            return;
        }
        self.record_failure(Failure {
            property: self.opts.prop.clone(),
            check: check.to_string(),
            sig: sig.to_string(),
            msg,
            scenario,
        });
    }

    /// Write the evidence file and return the process exit code
    pub fn finish(&self, level_explanation: &str) -> i32 {
        let wall = self.started.elapsed().as_secs_f64();
        for k in &self.known {
            if k.status == "known" {
                let hits = self.known_hits.lock().unwrap().get(&k.signature).copied().unwrap_or(0);
                println!(
                    "KNOWN-FINDING: property={} {} [signature={} hits_this_run={}]",
                    k.property, k.what, k.signature, hits
                );
            }
        }
        let violations = self.violations();
        let evals = self.evaluations.load(Ordering::Relaxed);
        let nontriv = self.nontrivial.load(Ordering::Relaxed);
        let ev = json!({
            "property_id": self.opts.prop,
            "tier": self.opts.tier.name(),
            "seed": self.opts.seed,
            "level": "exploration",
            "coverage": {
                "evaluations": evals,
                "distinct_nontrivial": nontriv,
                "rule": self.rules.lock().unwrap().join(" || "),
                "samples": *self.samples.lock().unwrap(),
                "exhaustive": self.any_sub.load(Ordering::Relaxed) && self.exhaustive_all.load(Ordering::Relaxed),
                "discards": self.discards.load(Ordering::Relaxed),
                "inconclusive_cases": self.inconclusive.load(Ordering::Relaxed),
                "subchecks": *self.subchecks.lock().unwrap(),
                "known_finding_hits": *self.known_hits.lock().unwrap(),
                "notes": *self.notes.lock().unwrap(),
                "explanation": level_explanation,
            },
            "assumptions": *self.assumptions.lock().unwrap(),
            "wall_s": wall,
            "violations": violations,
        });
        if !self.opts.no_evidence {
            let dir = format!("{}/evidence", verif_root());
            let _ = std::fs::create_dir_all(&dir);
            let path = format!("{dir}/{}.json", self.opts.prop);
            std::fs::write(&path, serde_json::to_string_pretty(&ev).unwrap()).expect("write evidence");
        }
        println!(
            "{} tier={} seed={} evaluations={} distinct_nontrivial={} discards={} inconclusive={} violations={} wall={:.1}s",
            self.opts.prop,
            self.opts.tier.name(),
            self.opts.seed,
            evals,
            nontriv,
            self.discards.load(Ordering::Relaxed),
            self.inconclusive.load(Ordering::Relaxed),
            violations,
            wall
        );
        if violations > 0 {
            1
        } else if evals == 0 {
            println!("INCONCLUSIVE: nothing was evaluated");
            2
        } else {
            0
        }
    }
}

/// Outcome of a sub-check driven by something other than `run_prop` (enumerations)
#[derive(Debug, Default, Clone)]
pub struct SubStats {
    pub name: String,
    pub rule: String,
    pub evaluations: u64,
    pub distinct_nontrivial: u64,
    pub discards: u64,
    pub inconclusive: u64,
    pub exhaustive: bool,
    pub classes: BTreeMap<String, u64>,
    pub samples: Vec<Value>,
    pub wall_s: f64,
}

pub fn hash64<T: Hash>(t: &T) -> u64 {
    let mut h = std::collections::hash_map::DefaultHasher::new();
    t.hash(&mut h);
    h.finish()
}

pub fn mix(a: u64, b: u64) -> u64 {
    let mut x = a ^ b.wrapping_mul(0x9e3779b97f4a7c15);
    x ^= x >> 30;
    x = x.wrapping_mul(0xbf58476d1ce4e5b9);
    x ^= x >> 27;
    x = x.wrapping_mul(0x94d049bb133111eb);
    x ^ (x >> 31)
}

fn seed_bytes(seed: u64, worker: u64, name: &str) -> Vec<u8> {
    let mut out = Vec::with_capacity(32);
    let base = mix(mix(seed, worker), hash64(&name));
    for i in 0..4u64 {
        out.extend_from_slice(&mix(base, i).to_le_bytes());
    }
    out
}

struct Shared {
    evaluations: AtomicU64,
    discards: AtomicU64,
    inconclusive: AtomicU64,
    nontrivial: Mutex<HashSet<u64>>,
    classes: Mutex<BTreeMap<String, u64>>,
    samples: Mutex<Vec<Value>>,
    inconclusive_notes: Mutex<Vec<String>>,
    stop: AtomicBool,
}

/// Drive `f` over `cases` values of `strat` on all cores. Returns true if no violation was found.
///
/// `f` must be a pure function of its argument. On failure the scenario is shrunk by proptest,
/// written to a replay file and reported. Failures whose signature is a listed known finding are
/// counted and skipped so the campaign continues.
pub fn run_prop<T, S, M, F>(report: &Report, name: &str, rule: &str, mk_strat: M, cases: u64, f: F) -> bool
where
    T: Debug + Serialize + Clone + Send,
    S: Strategy<Value = T>,
    M: Fn() -> S + Sync,
    F: Fn(&T) -> CaseOut + Sync,
{
    if !report.wants(name) {
        return true;
    }
    // Watchdog: a case that does not return within QV_WATCHDOG_SECS of wall time (default 300; cases
    // normally take milliseconds) is reported as a hang with exit code 2 (not as a violation: wall
    // time is never a correctness signal), after saving the scenario for diagnosis.
    let watchdog_secs: u64 = std::env::var("QV_WATCHDOG_SECS").ok().and_then(|s| s.parse().ok()).unwrap_or(300);
    let running: Vec<Mutex<Option<(Instant, T)>>> = (0..report.opts.threads.max(1)).map(|_| Mutex::new(None)).collect();
    let workers_left = AtomicU64::new(report.opts.threads.max(1) as u64);
    let started = Instant::now();
    let threads = report.opts.threads.max(1);
    let per = cases.div_ceil(threads as u64).max(1);
    let sh = Shared {
        evaluations: AtomicU64::new(0),
        discards: AtomicU64::new(0),
        inconclusive: AtomicU64::new(0),
        nontrivial: Mutex::new(HashSet::new()),
        classes: Mutex::new(BTreeMap::new()),
        samples: Mutex::new(vec![]),
        inconclusive_notes: Mutex::new(vec![]),
        stop: AtomicBool::new(false),
    };
    let failure: Mutex<Option<Failure>> = Mutex::new(None);

    std::thread::scope(|scope| {
        {
            let running = &running;
            let workers_left = &workers_left;
            let failure = &failure;
            scope.spawn(move || {
                while workers_left.load(Ordering::Relaxed) > 0 {
                    std::thread::sleep(std::time::Duration::from_millis(250));
                    for slot in running.iter() {
                        let g = slot.lock().unwrap();
                        if let Some((t0, v)) = &*g {
                            if t0.elapsed().as_secs() >= watchdog_secs {
                                let scenario = serde_json::to_value(v).unwrap_or(Value::Null);
                                let h = hash64(&scenario.to_string());
                                let dir = std::path::PathBuf::from(verif_root()).join("replays");
                                let _ = std::fs::create_dir_all(&dir);
                                let path = dir.join(format!("{}-{}-hang-{:012x}.json", report.opts.prop, name, h & 0xffff_ffff_ffff));
                                let f = Failure { property: report.opts.prop.clone(), check: name.to_string(), sig: "hang/watchdog".into(), msg: format!("case did not return within {watchdog_secs} s of wall time"), scenario };
                                let _ = std::fs::write(&path, serde_json::to_string_pretty(&f).unwrap_or_default());
                                // a violation another worker has found (and minimised) in the meantime is reported
                                // all the same: it stands on its own generated input, whatever the stuck case is
                                if let Some(fv) = failure.lock().unwrap().take() {
                                    report.record_failure(fv);
                                    println!("HANG property={} check={} replay={} (another generated case did not return within {} s)", report.opts.prop, name, path.display(), watchdog_secs);
                                    std::process::exit(1);
                                }
                                println!("HANG property={} check={} replay={} (a generated case did not return within {} s; inconclusive, exit 2)", report.opts.prop, name, path.display(), watchdog_secs);
                                std::process::exit(2);
                            }
                        }
                    }
                }
            });
        }
        for w in 0..threads {
            let mk_strat = &mk_strat;
            let sh = &sh;
            let f = &f;
            let failure = &failure;
            let running = &running;
            let workers_left = &workers_left;
            let seed = report.opts.seed;
            std::thread::Builder::new()
                .stack_size(64 << 20)
                .spawn_scoped(scope, move || {
                    let strat = mk_strat();
                    let cfg = Config {
                        cases: per as u32,
                        failure_persistence: None,
                        rng_algorithm: RngAlgorithm::ChaCha,
                        rng_seed: RngSeed::Fixed(0), // overridden below through the rng
                        max_shrink_iters: 4000,
                        max_shrink_time: 300_000, // ms; bounds minimisation only, never the verdict
                        max_global_rejects: 1_000_000,
                        ..Config::default()
                    };
                    let rng = proptest::test_runner::TestRng::from_seed(
                        RngAlgorithm::ChaCha,
                        &seed_bytes(seed, w as u64, name),
                    );
                    let mut runner = TestRunner::new_with_rng(cfg, rng);
                    // Whether this worker has already seen its first failure (shrinking re-runs
                    // the closure; stop counting then).
                    let failed_once = std::cell::Cell::new(false);
                    let first_sig: RefCell<Option<String>> = RefCell::new(None);
                    let last_fail: RefCell<Option<(String, String)>> = RefCell::new(None);
                    let local_labels: RefCell<BTreeMap<&'static str, u64>> = RefCell::new(BTreeMap::new());
                    let result = runner.run(&strat, |v| {
                        if sh.stop.load(Ordering::Relaxed) && !failed_once.get() {
                            return Ok(());
                        }
                        *running[w].lock().unwrap() = Some((Instant::now(), v.clone()));
                        let out = {
                            let _cur = set_current_case(&report.opts.prop, name, &v);
                            match catch(|| f(&v)) {
                                Ok(o) => o,
                                Err(p) => panic_to_case(p, false),
                            }
                        };
                        *running[w].lock().unwrap() = None;
                        let counting = !failed_once.get();
                        match &out.verdict {
                            Verdict::Fail { sig, msg } => {
                                if report.is_known(sig) {
                                    if counting {
                                        *report.known_hits.lock().unwrap().entry(sig.clone()).or_insert(0) += 1;
                                        sh.evaluations.fetch_add(1, Ordering::Relaxed);
                                    }
                                    return Ok(());
                                }
                                let prev = first_sig.borrow().clone();
                                match prev {
                                    // While shrinking, only follow the same failure.
                                    Some(fs) if &fs != sig => return Ok(()),
                                    Some(_) => {}
                                    None => *first_sig.borrow_mut() = Some(sig.clone()),
                                }
                                failed_once.set(true);
                                *last_fail.borrow_mut() = Some((sig.clone(), msg.clone()));
                                sh.stop.store(true, Ordering::Relaxed);
                                Err(TestCaseError::fail(format!("{sig}: {msg}")))
                            }
                            Verdict::Discard(_) => {
                                if counting {
                                    sh.discards.fetch_add(1, Ordering::Relaxed);
                                    sh.evaluations.fetch_add(1, Ordering::Relaxed);
                                }
                                Ok(())
                            }
                            Verdict::Inconclusive(why) => {
                                if counting {
                                    sh.inconclusive.fetch_add(1, Ordering::Relaxed);
                                    sh.evaluations.fetch_add(1, Ordering::Relaxed);
                                    let mut n = sh.inconclusive_notes.lock().unwrap();
                                    if n.len() < 5 {
                                        n.push(why.clone());
                                    }
                                }
                                Ok(())
                            }
                            Verdict::Pass => {
                                if counting {
                                    let n = sh.evaluations.fetch_add(1, Ordering::Relaxed);
                                    {
                                        let mut l = local_labels.borrow_mut();
                                        for lab in &out.labels {
                                            *l.entry(lab).or_insert(0) += 1;
                                        }
                                    }
                                    if out.nontrivial {
                                        let h = hash64(&serde_json::to_string(&v).unwrap_or_default());
                                        sh.nontrivial.lock().unwrap().insert(h);
                                    }
                                    // keep a few samples: the first non-trivial ones
                                    if (out.nontrivial || n < 2) && out.summary.is_some() {
                                        let mut s = sh.samples.lock().unwrap();
                                        if s.len() < 4 {
                                            s.push(json!({"summary": out.summary, "labels": out.labels}));
                                        }
                                    }
                                }
                                Ok(())
                            }
                        }
                    });
                    {
                        let mut c = sh.classes.lock().unwrap();
                        for (k, v) in local_labels.borrow().iter() {
                            *c.entry(k.to_string()).or_insert(0) += v;
                        }
                    }
                    if let Err(e) = result {
                        match e {
                            TestError::Fail(_, v) => {
                                // Re-run the minimal value to get the final message
                                let out = match catch(|| f(&v)) {
                                    Ok(o) => o,
                                    Err(p) => panic_to_case(p, false),
                                };
                                let (sig, msg) = match out.verdict {
                                    Verdict::Fail { sig, msg } => (sig, msg),
                                    other => {
                                        // The failure did not reproduce on re-execution of the
                                        // minimal value (possible only if the code under test is
                                        // not a pure function of the scenario): report what was
                                        // observed when it failed.
                                        let (s0, m0) = last_fail.borrow().clone().unwrap_or(("unstable".into(), String::new()));
                                        (s0, format!("{m0}\n(note: re-running the shrunk scenario gave {other:?}; the failure is not deterministic)"))
                                    }
                                };
                                let mut fl = failure.lock().unwrap();
                                if fl.is_none() {
                                    *fl = Some(Failure {
                                        property: report.opts.prop.clone(),
                                        check: name.to_string(),
                                        sig,
                                        msg,
                                        scenario: serde_json::to_value(&v).unwrap_or(Value::Null),
                                    });
                                }
                            }
                            TestError::Abort(why) => {
                                report.note(format!("[{name}] worker aborted: {why}"));
                            }
                        }
                    }
                    workers_left.fetch_sub(1, Ordering::Relaxed);
                })
                .expect("spawn worker");
        }
    });

    let evals = sh.evaluations.load(Ordering::Relaxed);
    let nontriv = sh.nontrivial.lock().unwrap().len() as u64;
    let sub = SubStats {
        name: name.to_string(),
        rule: rule.to_string(),
        evaluations: evals,
        distinct_nontrivial: nontriv,
        discards: sh.discards.load(Ordering::Relaxed),
        inconclusive: sh.inconclusive.load(Ordering::Relaxed),
        exhaustive: false,
        classes: sh.classes.lock().unwrap().clone(),
        samples: sh.samples.lock().unwrap().clone(),
        wall_s: started.elapsed().as_secs_f64(),
    };
    println!(
        "  [{}] cases={} nontrivial={} discards={} inconclusive={} {:.1}s classes={:?}",
        name, sub.evaluations, sub.distinct_nontrivial, sub.discards, sub.inconclusive, sub.wall_s, sub.classes
    );
    for n in sh.inconclusive_notes.lock().unwrap().iter() {
        println!("    inconclusive: {n}");
        report.note(format!("[{name}] inconclusive: {n}"));
    }
    report.add_sub(sub);
    let fl = failure.lock().unwrap().take();
    match fl {
        Some(f) => {
            report.record_failure(f);
            false
        }
        None => true,
    }
}

/// Generate one value from a strategy deterministically (used by enumerators that need a sample)
pub fn sample_one<S: Strategy>(strat: &S, seed: u64) -> S::Value {
    let rng = proptest::test_runner::TestRng::from_seed(RngAlgorithm::ChaCha, &seed_bytes(seed, 0, "sample"));
    let mut runner = TestRunner::new_with_rng(Config::default(), rng);
    strat.new_tree(&mut runner).unwrap().current()
}

/// Load a replay file
pub fn load_replay(path: &PathBuf) -> Failure {
    let s = std::fs::read_to_string(path).unwrap_or_else(|e| panic!("cannot read replay {path:?}: {e}"));
    serde_json::from_str(&s).expect("replay file must parse")
}

pub fn replay_case<T: DeserializeOwned + Debug>(f: &Failure, run: impl Fn(&T) -> CaseOut) -> i32 {
    let v: T = serde_json::from_value(f.scenario.clone()).expect("scenario must deserialize");
    // (a replay that ends in a panic which cannot unwind is reported by the panic hook, not by an abort)
    let sv = f.scenario.clone();
    let out = {
        let _cur = set_current_case(&f.property, &f.check, &sv);
        match catch(|| run(&v)) {
            Ok(o) => o,
            Err(p) => panic_to_case(p, true),
        }
    };
    match out.verdict {
        Verdict::Fail { sig, msg } => {
            println!("VIOLATION property={} replay=(given)", f.property);
            println!("  check={} sig={}", f.check, sig);
            let maxl = if std::env::var("QV_TRACE").is_ok() { usize::MAX } else { 60 };
            for l in msg.lines().take(maxl) {
                println!("  | {l}");
            }
            1
        }
        Verdict::Pass => {
            println!("replay passed (labels {:?})", out.labels);
            0
        }
        other => {
            println!("replay: {other:?}");
            2
        }
    }
}
