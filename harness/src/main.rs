use qv::core::{install_panic_hook, load_replay, Opts, Report, Tier};
use std::path::PathBuf;

fn usage() -> ! {
    eprintln!("usage: qv <cNN> [--tier quick|thorough] [--seed N] [--replay FILE] [--scale F] [--threads N] [--only SUB] [--no-evidence]");
    std::process::exit(2)
}

fn main() {
    let args: Vec<String> = std::env::args().skip(1).collect();
    if args.is_empty() {
        usage();
    }
    let prop = args[0].to_uppercase();
    let mut opts = Opts {
        prop: prop.clone(),
        tier: match std::env::var("VERIF_TIER").as_deref() {
            Ok("thorough") => Tier::Thorough,
            _ => Tier::Quick,
        },
        seed: std::env::var("VERIF_SEED").ok().and_then(|s| s.parse().ok()).unwrap_or(1),
        replay: None,
        scale: 1.0,
        threads: std::thread::available_parallelism().map(|n| n.get()).unwrap_or(8),
        only: None,
        no_evidence: false,
    };
    let mut i = 1;
    while i < args.len() {
        let need = |i: usize| args.get(i + 1).cloned().unwrap_or_else(|| usage());
        match args[i].as_str() {
            "--tier" => {
                opts.tier = match need(i).as_str() {
                    "quick" => Tier::Quick,
                    "thorough" => Tier::Thorough,
                    _ => usage(),
                };
                i += 1;
            }
            "--seed" => {
                opts.seed = need(i).parse().unwrap_or_else(|_| usage());
                i += 1;
            }
            "--replay" => {
                opts.replay = Some(PathBuf::from(need(i)));
                i += 1;
            }
            "--scale" => {
                opts.scale = need(i).parse().unwrap_or_else(|_| usage());
                i += 1;
            }
            "--threads" => {
                opts.threads = need(i).parse().unwrap_or_else(|_| usage());
                i += 1;
            }
            "--only" => {
                opts.only = Some(need(i));
                i += 1;
            }
            "--no-evidence" => opts.no_evidence = true,
            _ => usage(),
        }
        i += 1;
    }
    install_panic_hook();
    if let Some(path) = &opts.replay {
        let f = load_replay(path);
        let code = qv::checks::replay(&f);
        std::process::exit(code);
    }
    let report = Report::new(opts);
    let code = qv::checks::run(&prop, &report);
    std::process::exit(code);
}
