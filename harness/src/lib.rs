pub mod alloc_count;
pub mod app;
pub mod asyncsim;
pub mod cfg;
pub mod checks;
pub mod core;
pub mod puppet;
pub mod pw;
pub mod simcrypto;
pub mod simnet;
pub mod spec;
pub mod tls;
pub mod wire;

#[global_allocator]
static GLOBAL: alloc_count::Counting = alloc_count::Counting;
