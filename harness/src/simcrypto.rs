//! SimCrypto: a harness implementation of quinn-proto's `crypto` traits.
//!
//! A four-message pseudo-TLS carrying the serialised transport parameters, identity header
//! protection (16-byte sample so sizing logic is unchanged) and plaintext payloads followed by a
//! 16-byte keyed tag over (key, packet number, header, payload). Keys are distinct per connection
//! (derived from the client's Initial destination CID), per level, per direction and per
//! key-update generation, so cross-connection, cross-level and stale-generation packets fail
//! authentication exactly as with an AEAD, while the wire stays transparent to the observer.

use bytes::BytesMut;
use quinn_proto::crypto::{
    self, AeadKey, CryptoError, HandshakeTokenKey, HeaderKey, HmacKey, KeyPair, Keys, PacketKey,
};
use quinn_proto::transport_parameters::TransportParameters;
use quinn_proto::{ConnectError, ConnectionId, Side, TransportError, TransportErrorCode};
use std::any::Any;
use std::collections::HashMap;
use std::hash::Hasher;
use std::sync::atomic::{AtomicU64, Ordering};
use std::sync::{Arc, Mutex};

pub const TAG_LEN: usize = 16;

/// 128-bit keyed hash over length-prefixed parts (SipHash based; deterministic across runs)
pub fn h128(key: u64, parts: &[&[u8]]) -> [u8; 16] {
    let mut out = [0u8; 16];
    for (i, salt) in [0x9e3779b97f4a7c15u64, 0xc2b2ae3d27d4eb4f].iter().enumerate() {
        #[allow(deprecated)]
        let mut h = std::hash::SipHasher::new_with_keys(key ^ salt, *salt);
        for p in parts {
            h.write_u64(p.len() as u64);
            h.write(p);
        }
        out[i * 8..i * 8 + 8].copy_from_slice(&h.finish().to_be_bytes());
    }
    out
}

pub fn h64(key: u64, parts: &[&[u8]]) -> u64 {
    u64::from_be_bytes(h128(key, parts)[..8].try_into().unwrap())
}

pub struct NullHeader;
impl HeaderKey for NullHeader {
    // (no masking, but like every real header key the sample behind the longest possible packet number is
    // read: a caller that hands over too short a packet fails here as it would with AES or ChaCha)
    fn decrypt(&self, pn_offset: usize, packet: &mut [u8]) {
        let _sample = &packet[pn_offset + 4..pn_offset + 4 + 16];
    }
    fn encrypt(&self, pn_offset: usize, packet: &mut [u8]) {
        let _sample = &packet[pn_offset + 4..pn_offset + 4 + 16];
    }
    fn sample_size(&self) -> usize {
        16
    }
}

#[derive(Clone, Copy, Debug)]
pub struct Limits {
    pub confidentiality: u64,
    pub integrity: u64,
}

impl Default for Limits {
    fn default() -> Self {
        Self { confidentiality: 1 << 40, integrity: 1 << 40 }
    }
}

pub struct TagKey {
    pub key: u64,
    pub limits: Limits,
}

/// Compute the packet protection tag
pub fn packet_tag(key: u64, pn: u64, header: &[u8], payload: &[u8]) -> [u8; 16] {
    h128(key, &[&pn.to_be_bytes(), header, payload])
}

impl PacketKey for TagKey {
    fn encrypt(&self, pn: u64, buf: &mut [u8], header_len: usize) {
        let n = buf.len() - TAG_LEN;
        let (body, tag) = buf.split_at_mut(n);
        let (hdr, pay) = body.split_at(header_len);
        tag.copy_from_slice(&packet_tag(self.key, pn, hdr, pay));
    }
    fn decrypt(&self, pn: u64, header: &[u8], payload: &mut BytesMut) -> Result<(), CryptoError> {
        if payload.len() < TAG_LEN {
            return Err(CryptoError);
        }
        let n = payload.len() - TAG_LEN;
        let want = packet_tag(self.key, pn, header, &payload[..n]);
        if want[..] != payload[n..] {
            return Err(CryptoError);
        }
        payload.truncate(n);
        Ok(())
    }
    fn tag_len(&self) -> usize {
        TAG_LEN
    }
    fn confidentiality_limit(&self) -> u64 {
        self.limits.confidentiality
    }
    fn integrity_limit(&self) -> u64 {
        self.limits.integrity
    }
}

fn keys(local: u64, remote: u64, limits: Limits) -> Keys {
    Keys {
        header: KeyPair { local: Box::new(NullHeader), remote: Box::new(NullHeader) },
        packet: KeyPair {
            local: Box::new(TagKey { key: local, limits }),
            remote: Box::new(TagKey { key: remote, limits }),
        },
    }
}

/// Connection key derived from the (latest) Initial destination CID
pub fn conn_key(dcid: &ConnectionId) -> u64 {
    h64(7, &[dcid])
}

/// Key id for (connection, level, sender side). level: 0 Initial, 1 Handshake, 2+g 1-RTT
/// generation g, 1000+ticket for 0-RTT.
pub fn level_key(conn: u64, level: u64, sender: Side) -> u64 {
    h64(conn, &[&level.to_be_bytes(), &[sender as u8]])
}

pub fn session_key(conn: u64, nonce: u64) -> u64 {
    h64(conn, &[b"session", &nonce.to_be_bytes()])
}

pub fn initial_keys(dcid: &ConnectionId, side: Side, limits: Limits) -> Keys {
    let k = conn_key(dcid);
    keys(level_key(k, 0, side), level_key(k, 0, !side), limits)
}

pub fn zero_rtt_key(ticket_id: u64) -> u64 {
    h64(0x0277, &[&ticket_id.to_be_bytes()])
}

#[derive(Clone, Debug)]
pub struct Ticket {
    pub id: u64,
    pub server_tp: Vec<u8>,
}

pub type TicketStore = Arc<Mutex<HashMap<String, Ticket>>>;

/// How a session misbehaves (for hostile-peer checks); default: honest
#[derive(Clone, Debug, Default)]
pub struct Tamper {
    /// Replace the transport parameter bytes this side presents
    pub tp_replace: Option<Vec<u8>>,
    /// Append raw bytes to the transport parameter bytes this side presents
    pub tp_append: Vec<u8>,
    /// Fail the handshake (as a TLS alert) when this handshake message tag is received
    pub alert_on_msg: Option<u8>,
    /// Emit garbage instead of handshake message with this tag
    pub garbage_msg: Option<u8>,
    /// Edits applied to individual parameters of the encoded transport parameters this side
    /// presents (after `tp_replace`, before `tp_append`)
    pub tp_edits: Vec<TpEdit>,
    /// Number of sessions whose presented transport parameters differ from the genuine ones
    pub applied: Arc<AtomicU64>,
}

/// One edit of the encoded transport parameters (sequence of id / length / value)
#[derive(Clone, Debug, PartialEq, serde::Serialize, serde::Deserialize)]
pub struct TpEdit {
    /// transport parameter id
    pub id: u64,
    pub op: TpOp,
}

#[derive(Clone, Debug, PartialEq, serde::Serialize, serde::Deserialize)]
pub enum TpOp {
    /// flip one bit of the value (no-op when the parameter is absent or empty)
    Flip { byte: u8, bit: u8 },
    /// remove the parameter
    Drop,
    /// replace the value by the value of parameter `from` (no-op when either is absent)
    CopyFrom { from: u64 },
    /// exchange the values of this parameter and parameter `with` (no-op when either is absent)
    Swap { with: u64 },
    /// append the parameter with this value when it is absent (no-op when present)
    AddIfAbsent { value: Vec<u8> },
    /// drop the last byte of the value
    Shorten,
    /// append a byte to the value
    Lengthen { byte: u8 },
}

/// Parse encoded transport parameters into (id, value) pairs; None when malformed
pub fn tp_split(b: &[u8]) -> Option<Vec<(u64, Vec<u8>)>> {
    let mut r = crate::wire::Rd::new(b);
    let mut out = vec![];
    while r.remaining() > 0 {
        let id = r.var().ok()?;
        let v = r.var_bytes().ok()?.to_vec();
        out.push((id, v));
    }
    Some(out)
}

pub fn tp_join(p: &[(u64, Vec<u8>)]) -> Vec<u8> {
    let mut out = vec![];
    for (id, v) in p {
        crate::wire::put_var(&mut out, *id);
        crate::wire::put_var(&mut out, v.len() as u64);
        out.extend_from_slice(v);
    }
    out
}

pub fn tp_apply_edits(b: &[u8], edits: &[TpEdit]) -> Vec<u8> {
    let Some(mut p) = tp_split(b) else { return b.to_vec() };
    for e in edits {
        let pos = p.iter().position(|(id, _)| *id == e.id);
        match (&e.op, pos) {
            (TpOp::Flip { byte, bit }, Some(i)) => {
                let n = p[i].1.len();
                if n > 0 {
                    p[i].1[*byte as usize % n] ^= 1 << (bit & 7);
                }
            }
            (TpOp::Drop, Some(i)) => {
                p.remove(i);
            }
            (TpOp::CopyFrom { from }, Some(i)) => {
                if let Some(j) = p.iter().position(|(id, _)| id == from) {
                    p[i].1 = p[j].1.clone();
                }
            }
            (TpOp::Swap { with }, Some(i)) => {
                if let Some(j) = p.iter().position(|(id, _)| id == with) {
                    let t = p[i].1.clone();
                    p[i].1 = p[j].1.clone();
                    p[j].1 = t;
                }
            }
            (TpOp::AddIfAbsent { value }, None) => p.push((e.id, value.clone())),
            (TpOp::Shorten, Some(i)) => {
                p[i].1.pop();
            }
            (TpOp::Lengthen { byte }, Some(i)) => p[i].1.push(*byte),
            _ => {}
        }
    }
    tp_join(&p)
}

pub struct SimClientConfig {
    pub tickets: TicketStore,
    pub use_tickets: bool,
    pub limits: Limits,
    pub tamper: Tamper,
    pub next_ticket: AtomicU64,
}

impl SimClientConfig {
    pub fn new() -> Self {
        Self {
            tickets: Arc::new(Mutex::new(HashMap::new())),
            use_tickets: false,
            limits: Limits::default(),
            tamper: Tamper::default(),
            next_ticket: AtomicU64::new(1),
        }
    }
}

pub struct SimServerConfig {
    /// per-session nonce source: handshake and 1-RTT keys depend on it (like a TLS server random),
    /// so packets of an earlier connection attempt with the same Initial DCID do not authenticate
    pub next_nonce: AtomicU64,
    pub accept_0rtt: bool,
    /// Extra bytes in the server's Handshake flight (stands in for certificate chain size)
    pub flight_pad: usize,
    pub limits: Limits,
    pub tamper: Tamper,
}

impl SimServerConfig {
    pub fn new() -> Self {
        Self { next_nonce: AtomicU64::new(1), accept_0rtt: false, flight_pad: 0, limits: Limits::default(), tamper: Tamper::default() }
    }
}

pub struct Sess {
    side: Side,
    local_tp: Vec<u8>,
    peer_tp: Option<Vec<u8>>,
    step: u8,
    inbox: Vec<u8>,
    done: bool,
    gen: u64,
    got_hd: bool,
    conn: AtomicU64,
    nonce: u64,
    limits: Limits,
    tamper: Tamper,
    // client
    server_name: String,
    tickets: Option<TicketStore>,
    ticket: Option<Ticket>,
    early_accepted: Option<bool>,
    new_ticket_id: u64,
    // server
    accept_0rtt: bool,
    flight_pad: usize,
    client_ticket: Option<u64>,
}

fn tp_bytes(p: &TransportParameters) -> Vec<u8> {
    let mut v = Vec::new();
    p.write(&mut v);
    v
}

fn present_tp(p: &TransportParameters, t: &Tamper) -> Vec<u8> {
    let genuine = tp_bytes(p);
    let mut v = match &t.tp_replace {
        Some(r) => r.clone(),
        None => genuine.clone(),
    };
    if !t.tp_edits.is_empty() {
        v = tp_apply_edits(&v, &t.tp_edits);
    }
    v.extend_from_slice(&t.tp_append);
    if v != genuine {
        t.applied.fetch_add(1, Ordering::Relaxed);
    }
    v
}

fn push_msg(tag: u8, body: &[u8], buf: &mut Vec<u8>) {
    buf.push(tag);
    buf.extend_from_slice(&(body.len() as u32).to_be_bytes()[1..]);
    buf.extend_from_slice(body);
}

fn alert(desc: u8, why: &str) -> TransportError {
    TransportError::new(TransportErrorCode::crypto(desc), why.to_string())
}

impl Sess {
    /// key material for handshake and 1-RTT levels: Initial DCID key mixed with the session nonce
    fn session_key(&self) -> u64 {
        session_key(self.conn.load(Ordering::Relaxed), self.nonce)
    }
    fn level_keys(&self, level: u64) -> Keys {
        let c = self.session_key();
        keys(level_key(c, level, self.side), level_key(c, level, !self.side), self.limits)
    }
}

impl crypto::Session for Sess {
    fn initial_keys(&self, dst_cid: ConnectionId, side: Side) -> Keys {
        self.conn.store(conn_key(&dst_cid), Ordering::Relaxed);
        initial_keys(&dst_cid, side, self.limits)
    }
    fn handshake_data(&self) -> Option<Box<dyn Any>> {
        None
    }
    fn peer_identity(&self) -> Option<Box<dyn Any>> {
        None
    }
    fn early_crypto(&self) -> Option<(Box<dyn HeaderKey>, Box<dyn PacketKey>)> {
        let id = match self.side {
            Side::Client => self.ticket.as_ref()?.id,
            Side::Server => {
                if !self.accept_0rtt {
                    return None;
                }
                self.client_ticket?
            }
        };
        Some((Box::new(NullHeader), Box::new(TagKey { key: zero_rtt_key(id), limits: self.limits })))
    }
    fn early_data_accepted(&self) -> Option<bool> {
        self.early_accepted
    }
    fn is_handshaking(&self) -> bool {
        !self.done
    }
    fn read_handshake(&mut self, buf: &[u8]) -> Result<bool, TransportError> {
        self.inbox.extend_from_slice(buf);
        while self.inbox.len() >= 4 {
            let len = u32::from_be_bytes([0, self.inbox[1], self.inbox[2], self.inbox[3]]) as usize;
            if self.inbox.len() < 4 + len {
                break;
            }
            let tag = self.inbox[0];
            let body: Vec<u8> = self.inbox[4..4 + len].to_vec();
            self.inbox.drain(..4 + len);
            if self.tamper.alert_on_msg == Some(tag) {
                return Err(alert(40, "sim: handshake failure requested"));
            }
            match (self.side, tag, self.step) {
                (Side::Server, 1, 0) => {
                    if body.len() < 9 {
                        return Err(alert(50, "sim: short client hello"));
                    }
                    if body[0] == 1 {
                        self.client_ticket = Some(u64::from_be_bytes(body[1..9].try_into().unwrap()));
                    }
                    self.peer_tp = Some(body[9..].to_vec());
                    self.step = 1;
                }
                (Side::Client, 2, 100) => {
                    if body.len() < 8 {
                        return Err(alert(50, "sim: short server hello"));
                    }
                    self.nonce = u64::from_be_bytes(body[..8].try_into().unwrap());
                    self.step = 1;
                }
                (Side::Client, 3, 2) => {
                    if body.len() < 3 {
                        return Err(alert(50, "sim: short encrypted extensions"));
                    }
                    let accepted = body[0] == 1;
                    let tl = u16::from_be_bytes([body[1], body[2]]) as usize;
                    if body.len() < 3 + tl {
                        return Err(alert(50, "sim: short encrypted extensions tp"));
                    }
                    if self.ticket.is_some() {
                        self.early_accepted = Some(accepted);
                    }
                    self.peer_tp = Some(body[3..3 + tl].to_vec());
                    self.step = 3;
                }
                (Side::Server, 4, 3) => {
                    self.done = true;
                }
                _ => {
                    return Err(alert(10, "sim: unexpected handshake message"));
                }
            }
        }
        if !self.got_hd && self.peer_tp.is_some() && (self.side.is_server() || self.step >= 3) {
            self.got_hd = true;
            return Ok(true);
        }
        Ok(false)
    }
    fn transport_parameters(&self) -> Result<Option<TransportParameters>, TransportError> {
        let b = match (&self.peer_tp, &self.ticket) {
            (Some(b), _) => b,
            (None, Some(t)) if self.side.is_client() => &t.server_tp,
            _ => return Ok(None),
        };
        TransportParameters::read(self.side, &mut &b[..]).map(Some).map_err(Into::into)
    }
    fn write_handshake(&mut self, buf: &mut Vec<u8>) -> Option<Keys> {
        let garbage = self.tamper.garbage_msg;
        let mut msg = |tag: u8, body: &[u8], buf: &mut Vec<u8>| {
            if garbage == Some(tag) {
                push_msg(0x77, b"garbage", buf);
            } else {
                push_msg(tag, body, buf);
            }
        };
        match (self.side, self.step) {
            (Side::Client, 0) => {
                let mut body = Vec::new();
                match &self.ticket {
                    Some(t) => {
                        body.push(1);
                        body.extend_from_slice(&t.id.to_be_bytes());
                    }
                    None => {
                        body.push(0);
                        body.extend_from_slice(&[0; 8]);
                    }
                }
                body.extend_from_slice(&self.local_tp);
                msg(1, &body, buf);
                self.step = 100;
                None
            }
            (Side::Client, 1) => {
                self.step = 2;
                Some(self.level_keys(1))
            }
            (Side::Client, 3) => {
                msg(4, b"fin", buf);
                self.step = 4;
                self.done = true;
                // "NewSessionTicket": remember the server's parameters for a later 0-RTT attempt
                if let (Some(store), Some(tp)) = (&self.tickets, &self.peer_tp) {
                    store.lock().unwrap().insert(
                        self.server_name.clone(),
                        Ticket { id: self.new_ticket_id, server_tp: tp.clone() },
                    );
                }
                Some(self.level_keys(2))
            }
            (Side::Server, 1) => {
                msg(2, &self.nonce.to_be_bytes(), buf);
                self.step = 2;
                Some(self.level_keys(1))
            }
            (Side::Server, 2) => {
                let mut body = Vec::new();
                let accepted = self.accept_0rtt && self.client_ticket.is_some();
                body.push(accepted as u8);
                body.extend_from_slice(&(self.local_tp.len() as u16).to_be_bytes());
                body.extend_from_slice(&self.local_tp);
                body.resize(body.len() + self.flight_pad, 0xcc);
                msg(3, &body, buf);
                self.step = 3;
                Some(self.level_keys(2))
            }
            _ => None,
        }
    }
    fn next_1rtt_keys(&mut self) -> Option<KeyPair<Box<dyn PacketKey>>> {
        self.gen += 1;
        let c = self.session_key();
        Some(KeyPair {
            local: Box::new(TagKey { key: level_key(c, 2 + self.gen, self.side), limits: self.limits }),
            remote: Box::new(TagKey { key: level_key(c, 2 + self.gen, !self.side), limits: self.limits }),
        })
    }
    fn is_valid_retry(&self, odcid: ConnectionId, header: &[u8], payload: &[u8]) -> bool {
        if payload.len() < 16 {
            return false;
        }
        let n = payload.len() - 16;
        let mut pkt = header.to_vec();
        pkt.extend_from_slice(&payload[..n]);
        retry_tag(&odcid, &pkt)[..] == payload[n..]
    }
    fn export_keying_material(
        &self,
        out: &mut [u8],
        label: &[u8],
        context: &[u8],
    ) -> Result<(), crypto::ExportKeyingMaterialError> {
        let c = self.session_key();
        for (i, chunk) in out.chunks_mut(16).enumerate() {
            let h = h128(c, &[label, context, &(i as u64).to_be_bytes()]);
            chunk.copy_from_slice(&h[..chunk.len()]);
        }
        Ok(())
    }
}

pub fn retry_tag(odcid: &ConnectionId, packet: &[u8]) -> [u8; 16] {
    h128(99, &[odcid, packet])
}

impl crypto::ClientConfig for SimClientConfig {
    fn start_session(
        self: Arc<Self>,
        _v: u32,
        server_name: &str,
        params: &TransportParameters,
    ) -> Result<Box<dyn crypto::Session>, ConnectError> {
        let ticket = if self.use_tickets {
            self.tickets.lock().unwrap().get(server_name).cloned()
        } else {
            None
        };
        Ok(Box::new(Sess {
            side: Side::Client,
            local_tp: present_tp(params, &self.tamper),
            peer_tp: None,
            step: 0,
            inbox: vec![],
            done: false,
            gen: 0,
            got_hd: false,
            conn: AtomicU64::new(0),
            nonce: 0,
            limits: self.limits,
            tamper: self.tamper.clone(),
            server_name: server_name.to_string(),
            tickets: if self.use_tickets { Some(self.tickets.clone()) } else { None },
            ticket,
            early_accepted: None,
            new_ticket_id: self.next_ticket.fetch_add(1, Ordering::Relaxed),
            accept_0rtt: false,
            flight_pad: 0,
            client_ticket: None,
        }))
    }
}

impl crypto::ServerConfig for SimServerConfig {
    fn initial_keys(&self, _v: u32, dst_cid: ConnectionId) -> Result<Keys, crypto::UnsupportedVersion> {
        Ok(initial_keys(&dst_cid, Side::Server, self.limits))
    }
    fn retry_tag(&self, _v: u32, odcid: ConnectionId, packet: &[u8]) -> [u8; 16] {
        retry_tag(&odcid, packet)
    }
    fn start_session(self: Arc<Self>, _v: u32, params: &TransportParameters) -> Box<dyn crypto::Session> {
        Box::new(Sess {
            side: Side::Server,
            local_tp: present_tp(params, &self.tamper),
            peer_tp: None,
            step: 0,
            inbox: vec![],
            done: false,
            gen: 0,
            got_hd: false,
            conn: AtomicU64::new(0),
            nonce: self.next_nonce.fetch_add(1, Ordering::Relaxed),
            limits: self.limits,
            tamper: self.tamper.clone(),
            server_name: String::new(),
            tickets: None,
            ticket: None,
            early_accepted: None,
            new_ticket_id: 0,
            accept_0rtt: self.accept_0rtt,
            flight_pad: self.flight_pad,
            client_ticket: None,
        })
    }
}

/// Keyed hash standing in for HMAC (reset tokens, hashed CIDs)
pub struct SimHmac(pub u64);
impl HmacKey for SimHmac {
    fn sign(&self, data: &[u8], out: &mut [u8]) {
        let a = h128(self.0 ^ 5, &[data]);
        let b = h128(self.0 ^ 6, &[data]);
        out[..16].copy_from_slice(&a);
        out[16..32].copy_from_slice(&b);
    }
    fn signature_len(&self) -> usize {
        32
    }
    fn verify(&self, data: &[u8], sig: &[u8]) -> Result<(), CryptoError> {
        let mut o = [0u8; 32];
        self.sign(data, &mut o);
        if o[..] == *sig {
            Ok(())
        } else {
            Err(CryptoError)
        }
    }
}

/// Token key: "AEAD" that leaves the plaintext visible and appends a 16-byte keyed tag
pub struct SimTokenKey(pub u64);
pub struct SimAead(u64);
impl HandshakeTokenKey for SimTokenKey {
    fn aead_from_hkdf(&self, random_bytes: &[u8]) -> Box<dyn AeadKey> {
        Box::new(SimAead(h64(self.0, &[random_bytes])))
    }
}
impl AeadKey for SimAead {
    fn seal(&self, data: &mut Vec<u8>, aad: &[u8]) -> Result<(), CryptoError> {
        let t = h128(self.0, &[aad, data]);
        data.extend_from_slice(&t);
        Ok(())
    }
    fn open<'a>(&self, data: &'a mut [u8], aad: &[u8]) -> Result<&'a mut [u8], CryptoError> {
        if data.len() < 16 {
            return Err(CryptoError);
        }
        let n = data.len() - 16;
        let t = h128(self.0, &[aad, &data[..n]]);
        if t[..] != data[n..] {
            return Err(CryptoError);
        }
        Ok(&mut data[..n])
    }
}
