//! Real rustls (ring) configurations, with one self-signed certificate generated per process.

use quinn_proto::{ClientConfig, ServerConfig};
use rustls::pki_types::{CertificateDer, PrivateKeyDer, PrivatePkcs8KeyDer};
use std::sync::{Arc, OnceLock};

struct Ident {
    cert: CertificateDer<'static>,
    key: Vec<u8>,
}

fn ident() -> &'static Ident {
    static I: OnceLock<Ident> = OnceLock::new();
    I.get_or_init(|| {
        let ck = rcgen::generate_simple_self_signed(vec!["localhost".into()]).unwrap();
        Ident { cert: ck.cert.der().clone(), key: ck.signing_key.serialize_der() }
    })
}

pub fn server_config() -> ServerConfig {
    let i = ident();
    let key = PrivateKeyDer::Pkcs8(PrivatePkcs8KeyDer::from(i.key.clone()));
    ServerConfig::with_single_cert(vec![i.cert.clone()], key).expect("server config")
}

pub fn client_config() -> ClientConfig {
    let i = ident();
    let mut roots = rustls::RootCertStore::empty();
    roots.add(i.cert.clone()).unwrap();
    ClientConfig::with_root_certificates(Arc::new(roots)).expect("client config")
}

// ---- C17: configurations whose session state outlives one connection --------------------------

/// A client crypto configuration with its own resumption store; using the same object for two
/// consecutive connections lets the second one attempt 0-RTT
pub fn client_crypto() -> Arc<dyn quinn_proto::crypto::ClientConfig> {
    let i = ident();
    let mut roots = rustls::RootCertStore::empty();
    roots.add(i.cert.clone()).unwrap();
    let mut cfg = rustls::ClientConfig::builder_with_provider(Arc::new(rustls::crypto::ring::default_provider()))
        .with_protocol_versions(&[&rustls::version::TLS13])
        .unwrap()
        .with_root_certificates(roots)
        .with_no_client_auth();
    cfg.enable_early_data = true;
    Arc::new(quinn_proto::crypto::rustls::QuicClientConfig::try_from(cfg).expect("quic client config"))
}

pub type ServerSessions = Arc<dyn rustls::server::StoresServerSessions>;

pub fn server_sessions() -> ServerSessions {
    rustls::server::ServerSessionMemoryCache::new(64)
}

/// A server crypto configuration resuming sessions from `sessions`; `accept_early` selects
/// `max_early_data_size` u32::MAX (accept 0-RTT) or 0 (reject it)
pub fn server_crypto(accept_early: bool, sessions: ServerSessions) -> Arc<dyn quinn_proto::crypto::ServerConfig> {
    let i = ident();
    let key = PrivateKeyDer::Pkcs8(PrivatePkcs8KeyDer::from(i.key.clone()));
    let mut cfg = rustls::ServerConfig::builder_with_provider(Arc::new(rustls::crypto::ring::default_provider()))
        .with_protocol_versions(&[&rustls::version::TLS13])
        .unwrap()
        .with_no_client_auth()
        .with_single_cert(vec![i.cert.clone()], key)
        .expect("server cert");
    cfg.max_early_data_size = if accept_early { u32::MAX } else { 0 };
    cfg.session_storage = sessions;
    Arc::new(quinn_proto::crypto::rustls::QuicServerConfig::try_from(cfg).expect("quic server config"))
}
