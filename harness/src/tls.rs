//! Real rustls (ring) configurations, with one self-signed certificate generated per process.

use quinn_proto::{ClientConfig, ServerConfig};
use rustls::pki_types::{CertificateDer, PrivateKeyDer, PrivatePkcs8KeyDer};
use std::sync::{Arc, OnceLock};

struct Ident {
    cert: CertificateDer<'static>,
    key: Vec<u8>,
}

fn ident() -> &'static Ident {
    static I: OnceLock<Ident> = OnceLock::new();
    I.get_or_init(|| {
        let ck = rcgen::generate_simple_self_signed(vec!["localhost".into()]).unwrap();
        Ident { cert: ck.cert.der().clone(), key: ck.signing_key.serialize_der() }
    })
}

pub fn server_config() -> ServerConfig {
    let i = ident();
    let key = PrivateKeyDer::Pkcs8(PrivatePkcs8KeyDer::from(i.key.clone()));
    ServerConfig::with_single_cert(vec![i.cert.clone()], key).expect("server config")
}

pub fn client_config() -> ClientConfig {
    let i = ident();
    let mut roots = rustls::RootCertStore::empty();
    roots.add(i.cert.clone()).unwrap();
    ClientConfig::with_root_certificates(Arc::new(roots)).expect("client config")
}
