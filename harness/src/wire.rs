//! Independent QUIC v1 wire codec written from RFC 9000 / 9221 / the ack-frequency draft.
//!
//! Deliberately not built on quinn's codec: it is the wire observer of the simulated network, the
//! packet builder of the harness-implemented ("puppet") peer and the reference side of the codec
//! differential check.

use serde::{Deserialize, Serialize};

#[derive(Debug, Clone, PartialEq, Eq)]
pub enum WireError {
    Short,
    Malformed(&'static str),
}

pub type WResult<T> = Result<T, WireError>;

pub struct Rd<'a> {
    pub b: &'a [u8],
    pub pos: usize,
}

impl<'a> Rd<'a> {
    pub fn new(b: &'a [u8]) -> Self {
        Self { b, pos: 0 }
    }
    pub fn remaining(&self) -> usize {
        self.b.len() - self.pos
    }
    pub fn u8(&mut self) -> WResult<u8> {
        if self.remaining() < 1 {
            return Err(WireError::Short);
        }
        let v = self.b[self.pos];
        self.pos += 1;
        Ok(v)
    }
    pub fn bytes(&mut self, n: usize) -> WResult<&'a [u8]> {
        if self.remaining() < n {
            return Err(WireError::Short);
        }
        let v = &self.b[self.pos..self.pos + n];
        self.pos += n;
        Ok(v)
    }
    pub fn u16(&mut self) -> WResult<u16> {
        Ok(u16::from_be_bytes(self.bytes(2)?.try_into().unwrap()))
    }
    pub fn u32(&mut self) -> WResult<u32> {
        Ok(u32::from_be_bytes(self.bytes(4)?.try_into().unwrap()))
    }
    pub fn u64(&mut self) -> WResult<u64> {
        Ok(u64::from_be_bytes(self.bytes(8)?.try_into().unwrap()))
    }
    pub fn var(&mut self) -> WResult<u64> {
        let first = self.u8()?;
        let len = 1usize << (first >> 6);
        let mut v = (first & 0x3f) as u64;
        for _ in 1..len {
            v = (v << 8) | self.u8()? as u64;
        }
        Ok(v)
    }
    pub fn var_bytes(&mut self) -> WResult<&'a [u8]> {
        let n = self.var()?;
        if n > self.remaining() as u64 {
            return Err(WireError::Short);
        }
        self.bytes(n as usize)
    }
}

pub const VARINT_MAX: u64 = (1 << 62) - 1;

pub fn var_len(v: u64) -> usize {
    if v < 1 << 6 {
        1
    } else if v < 1 << 14 {
        2
    } else if v < 1 << 30 {
        4
    } else {
        8
    }
}

pub fn put_var(out: &mut Vec<u8>, v: u64) {
    assert!(v <= VARINT_MAX, "varint out of range");
    match var_len(v) {
        1 => out.push(v as u8),
        2 => out.extend_from_slice(&((v as u16) | 0x4000).to_be_bytes()),
        4 => out.extend_from_slice(&((v as u32) | 0x8000_0000).to_be_bytes()),
        _ => out.extend_from_slice(&(v | 0xc000_0000_0000_0000).to_be_bytes()),
    }
}

/// Encode a varint with a forced (possibly non-minimal) length
pub fn put_var_len(out: &mut Vec<u8>, v: u64, len: usize) {
    match len {
        1 => out.push(v as u8 & 0x3f),
        2 => out.extend_from_slice(&(((v as u16) & 0x3fff) | 0x4000).to_be_bytes()),
        4 => out.extend_from_slice(&(((v as u32) & 0x3fff_ffff) | 0x8000_0000).to_be_bytes()),
        _ => out.extend_from_slice(&((v & VARINT_MAX) | 0xc000_0000_0000_0000).to_be_bytes()),
    }
}

#[derive(Debug, Clone, PartialEq, Eq, Serialize, Deserialize)]
pub enum Frame {
    Padding(usize),
    Ping,
    /// ranges: inclusive (lo, hi), descending, first contains `largest`
    Ack { largest: u64, delay: u64, ranges: Vec<(u64, u64)>, ecn: Option<(u64, u64, u64)> },
    ResetStream { id: u64, code: u64, final_size: u64 },
    StopSending { id: u64, code: u64 },
    Crypto { offset: u64, data: Vec<u8> },
    NewToken { token: Vec<u8> },
    Stream { id: u64, offset: u64, data: Vec<u8>, fin: bool, has_len: bool, has_off: bool },
    MaxData(u64),
    MaxStreamData { id: u64, max: u64 },
    MaxStreams { bidi: bool, max: u64 },
    DataBlocked(u64),
    StreamDataBlocked { id: u64, limit: u64 },
    StreamsBlocked { bidi: bool, limit: u64 },
    NewConnectionId { seq: u64, retire_prior_to: u64, cid: Vec<u8>, reset_token: [u8; 16] },
    RetireConnectionId(u64),
    PathChallenge(u64),
    PathResponse(u64),
    ConnectionClose { code: u64, frame_type: u64, reason: Vec<u8> },
    ApplicationClose { code: u64, reason: Vec<u8> },
    HandshakeDone,
    AckFrequency { seq: u64, threshold: u64, max_ack_delay: u64, reordering: u64 },
    ImmediateAck,
    Datagram { data: Vec<u8>, has_len: bool },
    /// Raw bytes (used only when *encoding* hostile payloads)
    Raw(Vec<u8>),
}

impl Frame {
    pub fn is_ack_eliciting(&self) -> bool {
        !matches!(
            self,
            Frame::Padding(_) | Frame::Ack { .. } | Frame::ConnectionClose { .. } | Frame::ApplicationClose { .. }
        )
    }
    pub fn kind(&self) -> &'static str {
        match self {
            Frame::Padding(_) => "PADDING",
            Frame::Ping => "PING",
            Frame::Ack { .. } => "ACK",
            Frame::ResetStream { .. } => "RESET_STREAM",
            Frame::StopSending { .. } => "STOP_SENDING",
            Frame::Crypto { .. } => "CRYPTO",
            Frame::NewToken { .. } => "NEW_TOKEN",
            Frame::Stream { .. } => "STREAM",
            Frame::MaxData(_) => "MAX_DATA",
            Frame::MaxStreamData { .. } => "MAX_STREAM_DATA",
            Frame::MaxStreams { .. } => "MAX_STREAMS",
            Frame::DataBlocked(_) => "DATA_BLOCKED",
            Frame::StreamDataBlocked { .. } => "STREAM_DATA_BLOCKED",
            Frame::StreamsBlocked { .. } => "STREAMS_BLOCKED",
            Frame::NewConnectionId { .. } => "NEW_CONNECTION_ID",
            Frame::RetireConnectionId(_) => "RETIRE_CONNECTION_ID",
            Frame::PathChallenge(_) => "PATH_CHALLENGE",
            Frame::PathResponse(_) => "PATH_RESPONSE",
            Frame::ConnectionClose { .. } => "CONNECTION_CLOSE",
            Frame::ApplicationClose { .. } => "APPLICATION_CLOSE",
            Frame::HandshakeDone => "HANDSHAKE_DONE",
            Frame::AckFrequency { .. } => "ACK_FREQUENCY",
            Frame::ImmediateAck => "IMMEDIATE_ACK",
            Frame::Datagram { .. } => "DATAGRAM",
            Frame::Raw(_) => "RAW",
        }
    }
}

/// Decode every frame of a packet payload. Consecutive PADDING bytes are merged.
pub fn decode_frames(payload: &[u8]) -> WResult<Vec<Frame>> {
    let mut r = Rd::new(payload);
    let mut out = Vec::new();
    while r.remaining() > 0 {
        let ty = r.var()?;
        let f = match ty {
            0x00 => {
                let mut n = 1;
                while r.remaining() > 0 && r.b[r.pos] == 0 {
                    r.pos += 1;
                    n += 1;
                }
                Frame::Padding(n)
            }
            0x01 => Frame::Ping,
            0x02 | 0x03 => {
                let largest = r.var()?;
                let delay = r.var()?;
                let count = r.var()?;
                let first = r.var()?;
                if first > largest {
                    return Err(WireError::Malformed("ack first range underflow"));
                }
                let mut ranges = vec![(largest - first, largest)];
                let mut smallest = largest - first;
                for _ in 0..count {
                    let gap = r.var()?;
                    let len = r.var()?;
                    let hi = smallest
                        .checked_sub(gap)
                        .and_then(|x| x.checked_sub(2))
                        .ok_or(WireError::Malformed("ack gap underflow"))?;
                    let lo = hi.checked_sub(len).ok_or(WireError::Malformed("ack range underflow"))?;
                    ranges.push((lo, hi));
                    smallest = lo;
                }
                let ecn = if ty == 0x03 { Some((r.var()?, r.var()?, r.var()?)) } else { None };
                Frame::Ack { largest, delay, ranges, ecn }
            }
            0x04 => Frame::ResetStream { id: r.var()?, code: r.var()?, final_size: r.var()? },
            0x05 => Frame::StopSending { id: r.var()?, code: r.var()? },
            0x06 => Frame::Crypto { offset: r.var()?, data: r.var_bytes()?.to_vec() },
            0x07 => Frame::NewToken { token: r.var_bytes()?.to_vec() },
            0x08..=0x0f => {
                let id = r.var()?;
                let has_off = ty & 4 != 0;
                let has_len = ty & 2 != 0;
                let offset = if has_off { r.var()? } else { 0 };
                let data = if has_len {
                    r.var_bytes()?.to_vec()
                } else {
                    let n = r.remaining();
                    r.bytes(n)?.to_vec()
                };
                Frame::Stream { id, offset, data, fin: ty & 1 != 0, has_len, has_off }
            }
            0x10 => Frame::MaxData(r.var()?),
            0x11 => Frame::MaxStreamData { id: r.var()?, max: r.var()? },
            0x12 | 0x13 => Frame::MaxStreams { bidi: ty == 0x12, max: r.var()? },
            0x14 => Frame::DataBlocked(r.var()?),
            0x15 => Frame::StreamDataBlocked { id: r.var()?, limit: r.var()? },
            0x16 | 0x17 => Frame::StreamsBlocked { bidi: ty == 0x16, limit: r.var()? },
            0x18 => {
                let seq = r.var()?;
                let retire_prior_to = r.var()?;
                let len = r.u8()? as usize;
                if len == 0 || len > 20 {
                    return Err(WireError::Malformed("cid length"));
                }
                let cid = r.bytes(len)?.to_vec();
                let reset_token: [u8; 16] = r.bytes(16)?.try_into().unwrap();
                if retire_prior_to > seq {
                    return Err(WireError::Malformed("retire_prior_to > seq"));
                }
                Frame::NewConnectionId { seq, retire_prior_to, cid, reset_token }
            }
            0x19 => Frame::RetireConnectionId(r.var()?),
            0x1a => Frame::PathChallenge(r.u64()?),
            0x1b => Frame::PathResponse(r.u64()?),
            0x1c => Frame::ConnectionClose { code: r.var()?, frame_type: r.var()?, reason: r.var_bytes()?.to_vec() },
            0x1d => Frame::ApplicationClose { code: r.var()?, reason: r.var_bytes()?.to_vec() },
            0x1e => Frame::HandshakeDone,
            0x1f => Frame::ImmediateAck,
            0xaf => Frame::AckFrequency {
                seq: r.var()?,
                threshold: r.var()?,
                max_ack_delay: r.var()?,
                reordering: r.var()?,
            },
            0x30 | 0x31 => {
                let has_len = ty == 0x31;
                let data = if has_len {
                    r.var_bytes()?.to_vec()
                } else {
                    let n = r.remaining();
                    r.bytes(n)?.to_vec()
                };
                Frame::Datagram { data, has_len }
            }
            _ => return Err(WireError::Malformed("unknown frame type")),
        };
        out.push(f);
    }
    Ok(out)
}

pub fn encode_frame(f: &Frame, out: &mut Vec<u8>) {
    match f {
        Frame::Padding(n) => out.resize(out.len() + n, 0),
        Frame::Ping => out.push(0x01),
        Frame::Ack { largest, delay, ranges, ecn } => {
            out.push(if ecn.is_some() { 0x03 } else { 0x02 });
            put_var(out, *largest);
            put_var(out, *delay);
            put_var(out, ranges.len() as u64 - 1);
            put_var(out, ranges[0].1 - ranges[0].0);
            let mut smallest = ranges[0].0;
            for &(lo, hi) in &ranges[1..] {
                put_var(out, smallest - hi - 2);
                put_var(out, hi - lo);
                smallest = lo;
            }
            if let Some((a, b, c)) = ecn {
                put_var(out, *a);
                put_var(out, *b);
                put_var(out, *c);
            }
        }
        Frame::ResetStream { id, code, final_size } => {
            out.push(0x04);
            put_var(out, *id);
            put_var(out, *code);
            put_var(out, *final_size);
        }
        Frame::StopSending { id, code } => {
            out.push(0x05);
            put_var(out, *id);
            put_var(out, *code);
        }
        Frame::Crypto { offset, data } => {
            out.push(0x06);
            put_var(out, *offset);
            put_var(out, data.len() as u64);
            out.extend_from_slice(data);
        }
        Frame::NewToken { token } => {
            out.push(0x07);
            put_var(out, token.len() as u64);
            out.extend_from_slice(token);
        }
        Frame::Stream { id, offset, data, fin, has_len, has_off } => {
            let has_off = *has_off || *offset != 0;
            out.push(0x08 | (*fin as u8) | ((*has_len as u8) << 1) | ((has_off as u8) << 2));
            put_var(out, *id);
            if has_off {
                put_var(out, *offset);
            }
            if *has_len {
                put_var(out, data.len() as u64);
            }
            out.extend_from_slice(data);
        }
        Frame::MaxData(v) => {
            out.push(0x10);
            put_var(out, *v);
        }
        Frame::MaxStreamData { id, max } => {
            out.push(0x11);
            put_var(out, *id);
            put_var(out, *max);
        }
        Frame::MaxStreams { bidi, max } => {
            out.push(if *bidi { 0x12 } else { 0x13 });
            put_var(out, *max);
        }
        Frame::DataBlocked(v) => {
            out.push(0x14);
            put_var(out, *v);
        }
        Frame::StreamDataBlocked { id, limit } => {
            out.push(0x15);
            put_var(out, *id);
            put_var(out, *limit);
        }
        Frame::StreamsBlocked { bidi, limit } => {
            out.push(if *bidi { 0x16 } else { 0x17 });
            put_var(out, *limit);
        }
        Frame::NewConnectionId { seq, retire_prior_to, cid, reset_token } => {
            out.push(0x18);
            put_var(out, *seq);
            put_var(out, *retire_prior_to);
            out.push(cid.len() as u8);
            out.extend_from_slice(cid);
            out.extend_from_slice(reset_token);
        }
        Frame::RetireConnectionId(s) => {
            out.push(0x19);
            put_var(out, *s);
        }
        Frame::PathChallenge(t) => {
            out.push(0x1a);
            out.extend_from_slice(&t.to_be_bytes());
        }
        Frame::PathResponse(t) => {
            out.push(0x1b);
            out.extend_from_slice(&t.to_be_bytes());
        }
        Frame::ConnectionClose { code, frame_type, reason } => {
            out.push(0x1c);
            put_var(out, *code);
            put_var(out, *frame_type);
            put_var(out, reason.len() as u64);
            out.extend_from_slice(reason);
        }
        Frame::ApplicationClose { code, reason } => {
            out.push(0x1d);
            put_var(out, *code);
            put_var(out, reason.len() as u64);
            out.extend_from_slice(reason);
        }
        Frame::HandshakeDone => out.push(0x1e),
        Frame::ImmediateAck => out.push(0x1f),
        Frame::AckFrequency { seq, threshold, max_ack_delay, reordering } => {
            put_var(out, 0xaf);
            put_var(out, *seq);
            put_var(out, *threshold);
            put_var(out, *max_ack_delay);
            put_var(out, *reordering);
        }
        Frame::Datagram { data, has_len } => {
            out.push(0x30 | *has_len as u8);
            if *has_len {
                put_var(out, data.len() as u64);
            }
            out.extend_from_slice(data);
        }
        Frame::Raw(b) => out.extend_from_slice(b),
    }
}

#[derive(Debug, Clone, Copy, PartialEq, Eq, Hash, Serialize, Deserialize, PartialOrd, Ord)]
pub enum PktType {
    Initial,
    ZeroRtt,
    Handshake,
    Retry,
    Short,
    VersionNegotiation,
}

impl PktType {
    /// Packet number space index: 0 Initial, 1 Handshake, 2 application data
    pub fn space(self) -> Option<usize> {
        match self {
            PktType::Initial => Some(0),
            PktType::Handshake => Some(1),
            PktType::ZeroRtt | PktType::Short => Some(2),
            _ => None,
        }
    }
}

#[derive(Debug, Clone, PartialEq, Eq)]
pub struct Packet {
    pub ty: PktType,
    pub version: u32,
    pub dcid: Vec<u8>,
    pub scid: Vec<u8>,
    pub token: Vec<u8>,
    /// Truncated packet number and its encoded length
    pub pn_trunc: u64,
    pub pn_len: usize,
    pub key_phase: bool,
    pub spin: bool,
    pub first_byte: u8,
    /// Offset of the packet within the datagram, header length (up to and including pn), total length
    pub start: usize,
    pub header_len: usize,
    pub len: usize,
    /// Plaintext payload (without the 16-byte tag); valid under SimCrypto only
    pub payload: Vec<u8>,
    pub tag: Vec<u8>,
    /// VN: supported versions; Retry: integrity tag in `tag`, token in `token`
    pub versions: Vec<u32>,
}

/// Split a datagram into its coalesced packets assuming identity header protection (SimCrypto).
/// `short_dcid_len` is the CID length the *receiver* of this datagram uses.
/// Undecodable trailing bytes end the iteration with an error entry.
pub fn decode_datagram(d: &[u8], short_dcid_len: usize) -> Vec<WResult<Packet>> {
    let mut out = Vec::new();
    let mut start = 0;
    while start < d.len() {
        match decode_packet(&d[start..], short_dcid_len) {
            Ok(mut p) => {
                p.start = start;
                let l = p.len;
                out.push(Ok(p));
                start += l;
            }
            Err(e) => {
                out.push(Err(e));
                break;
            }
        }
    }
    out
}

pub fn decode_packet(d: &[u8], short_dcid_len: usize) -> WResult<Packet> {
    let mut r = Rd::new(d);
    let first = r.u8()?;
    let mut p = Packet {
        ty: PktType::Short,
        version: 0,
        dcid: vec![],
        scid: vec![],
        token: vec![],
        pn_trunc: 0,
        pn_len: 0,
        key_phase: false,
        spin: false,
        first_byte: first,
        start: 0,
        header_len: 0,
        len: 0,
        payload: vec![],
        tag: vec![],
        versions: vec![],
    };
    if first & 0x80 == 0 {
        p.dcid = r.bytes(short_dcid_len)?.to_vec();
        p.pn_len = (first & 3) as usize + 1;
        p.key_phase = first & 0x04 != 0;
        p.spin = first & 0x20 != 0;
        let pnb = r.bytes(p.pn_len)?;
        p.pn_trunc = pnb.iter().fold(0u64, |a, &b| (a << 8) | b as u64);
        p.header_len = r.pos;
        let rest = r.remaining();
        if rest < 16 {
            return Err(WireError::Short);
        }
        p.payload = r.bytes(rest - 16)?.to_vec();
        p.tag = r.bytes(16)?.to_vec();
        p.len = d.len();
        return Ok(p);
    }
    p.version = r.u32()?;
    let dl = r.u8()? as usize;
    p.dcid = r.bytes(dl)?.to_vec();
    let sl = r.u8()? as usize;
    p.scid = r.bytes(sl)?.to_vec();
    if p.version == 0 {
        p.ty = PktType::VersionNegotiation;
        while r.remaining() >= 4 {
            p.versions.push(r.u32()?);
        }
        p.header_len = r.pos;
        p.len = d.len();
        return Ok(p);
    }
    if dl > 20 || sl > 20 {
        return Err(WireError::Malformed("cid too long"));
    }
    p.ty = match (first >> 4) & 3 {
        0 => PktType::Initial,
        1 => PktType::ZeroRtt,
        2 => PktType::Handshake,
        _ => PktType::Retry,
    };
    if p.ty == PktType::Retry {
        let rest = r.remaining();
        if rest < 16 {
            return Err(WireError::Short);
        }
        p.token = r.bytes(rest - 16)?.to_vec();
        p.tag = r.bytes(16)?.to_vec();
        p.header_len = r.pos;
        p.len = d.len();
        return Ok(p);
    }
    if p.ty == PktType::Initial {
        p.token = r.var_bytes()?.to_vec();
    }
    let length = r.var()? as usize;
    p.pn_len = (first & 3) as usize + 1;
    if length > r.remaining() || length < p.pn_len + 16 {
        return Err(WireError::Malformed("bad length field"));
    }
    let pnb = r.bytes(p.pn_len)?;
    p.pn_trunc = pnb.iter().fold(0u64, |a, &b| (a << 8) | b as u64);
    p.header_len = r.pos;
    let body = length - p.pn_len;
    p.payload = r.bytes(body - 16)?.to_vec();
    p.tag = r.bytes(16)?.to_vec();
    p.len = r.pos;
    Ok(p)
}

/// RFC 9000 Appendix A.3 packet number reconstruction
pub fn expand_pn(largest: Option<u64>, trunc: u64, pn_len: usize) -> u64 {
    let expected = largest.map_or(0, |l| l + 1);
    let win = 1u64 << (pn_len * 8);
    let hwin = win / 2;
    let mask = win - 1;
    let candidate = (expected & !mask) | trunc;
    if candidate + hwin <= expected && candidate < (1u64 << 62) - win {
        candidate + win
    } else if candidate > expected + hwin && candidate >= win {
        candidate - win
    } else {
        candidate
    }
}

/// RFC 9000 Appendix A.2: number of bytes needed for `pn` given the largest acked
pub fn pn_len_for(pn: u64, largest_acked: Option<u64>) -> usize {
    let range = match largest_acked {
        None => pn + 1,
        Some(l) => pn - l,
    } * 2;
    if range < 1 << 8 {
        1
    } else if range < 1 << 16 {
        2
    } else if range < 1 << 24 {
        3
    } else {
        4
    }
}

pub struct BuildPkt<'a> {
    pub ty: PktType,
    pub version: u32,
    pub dcid: &'a [u8],
    pub scid: &'a [u8],
    pub token: &'a [u8],
    pub pn: u64,
    pub pn_len: usize,
    pub key_phase: bool,
    pub payload: &'a [u8],
    /// Key for the SimCrypto tag
    pub key: u64,
    /// Pad payload with PADDING so that the whole packet is at least this long
    pub min_len: usize,
    /// Override for the two reserved bits / fixed bit (normally 0x40 fixed bit set, reserved 0)
    pub first_byte_xor: u8,
}

/// Build a SimCrypto-protected packet (identity header protection)
pub fn build_packet(b: &BuildPkt<'_>, out: &mut Vec<u8>) {
    let start = out.len();
    let mut payload = b.payload.to_vec();
    // A packet needs at least 4 bytes of pn+payload before the 16-byte sample; pad like quinn does.
    while b.pn_len + payload.len() < 4 {
        payload.push(0);
    }
    let pn_bytes = &b.pn.to_be_bytes()[8 - b.pn_len..];
    match b.ty {
        PktType::Short => {
            let first = (0x40 | ((b.key_phase as u8) << 2) | (b.pn_len as u8 - 1)) ^ b.first_byte_xor;
            out.push(first);
            out.extend_from_slice(b.dcid);
            out.extend_from_slice(pn_bytes);
            let hl = out.len() - start;
            if hl + payload.len() + 16 < b.min_len {
                payload.resize(b.min_len - hl - 16, 0);
            }
            let tag = crate::simcrypto::packet_tag(b.key, b.pn, &out[start..], &payload);
            out.extend_from_slice(&payload);
            out.extend_from_slice(&tag);
        }
        PktType::Initial | PktType::Handshake | PktType::ZeroRtt => {
            let tybits = match b.ty {
                PktType::Initial => 0,
                PktType::ZeroRtt => 1,
                _ => 2,
            };
            let first = (0xc0 | (tybits << 4) | (b.pn_len as u8 - 1)) ^ b.first_byte_xor;
            out.push(first);
            out.extend_from_slice(&b.version.to_be_bytes());
            out.push(b.dcid.len() as u8);
            out.extend_from_slice(b.dcid);
            out.push(b.scid.len() as u8);
            out.extend_from_slice(b.scid);
            if b.ty == PktType::Initial {
                put_var(out, b.token.len() as u64);
                out.extend_from_slice(b.token);
            }
            // length is always encoded on 2 bytes, as allowed by the RFC
            let hl_no_len = out.len() - start;
            let total_fixed = hl_no_len + 2 + b.pn_len + 16;
            if total_fixed + payload.len() < b.min_len {
                payload.resize(b.min_len - total_fixed, 0);
            }
            let length = b.pn_len + payload.len() + 16;
            put_var_len(out, length as u64, 2);
            out.extend_from_slice(pn_bytes);
            let tag = crate::simcrypto::packet_tag(b.key, b.pn, &out[start..], &payload);
            out.extend_from_slice(&payload);
            out.extend_from_slice(&tag);
        }
        _ => panic!("build_packet: unsupported type"),
    }
}

pub fn encode_frames(frames: &[Frame]) -> Vec<u8> {
    let mut v = Vec::new();
    for f in frames {
        encode_frame(f, &mut v);
    }
    v
}

/// Stream id helpers (RFC 9000 §2.1)
pub fn sid(initiator_server: bool, uni: bool, index: u64) -> u64 {
    (index << 2) | ((uni as u64) << 1) | initiator_server as u64
}
pub fn sid_index(id: u64) -> u64 {
    id >> 2
}
pub fn sid_uni(id: u64) -> bool {
    id & 2 != 0
}
pub fn sid_server_initiated(id: u64) -> bool {
    id & 1 != 0
}
