//! Per-thread allocation accounting (C03: "grow memory without bound"). A generated case runs on
//! one thread, so the live-byte delta of that thread over a case is the memory the case holds.

use std::alloc::{GlobalAlloc, Layout, System};
use std::cell::Cell;

thread_local! {
    static LIVE: Cell<i64> = const { Cell::new(0) };
    static PEAK: Cell<i64> = const { Cell::new(0) };
}

pub struct Counting;

unsafe impl GlobalAlloc for Counting {
    unsafe fn alloc(&self, l: Layout) -> *mut u8 {
        let p = unsafe { System.alloc(l) };
        if !p.is_null() {
            let _ = LIVE.try_with(|c| {
                let v = c.get() + l.size() as i64;
                c.set(v);
                let _ = PEAK.try_with(|p| {
                    if v > p.get() {
                        p.set(v)
                    }
                });
            });
        }
        p
    }
    unsafe fn dealloc(&self, p: *mut u8, l: Layout) {
        unsafe { System.dealloc(p, l) };
        let _ = LIVE.try_with(|c| c.set(c.get() - l.size() as i64));
    }
    unsafe fn realloc(&self, p: *mut u8, l: Layout, new: usize) -> *mut u8 {
        let q = unsafe { System.realloc(p, l, new) };
        if !q.is_null() {
            let _ = LIVE.try_with(|c| {
                let v = c.get() + new as i64 - l.size() as i64;
                c.set(v);
                let _ = PEAK.try_with(|p| {
                    if v > p.get() {
                        p.set(v)
                    }
                });
            });
        }
        q
    }
}

/// Live bytes allocated (and not yet freed) by this thread
pub fn live() -> i64 {
    LIVE.with(|c| c.get())
}

/// Reset the peak marker to the current live value and return it
pub fn reset_peak() -> i64 {
    let v = live();
    PEAK.with(|p| p.set(v));
    v
}

pub fn peak() -> i64 {
    PEAK.with(|p| p.get())
}
