//! Event-driven application interpreter running on top of one `quinn_proto::Connection`, with the
//! stream/datagram content oracle (C01/C16) built in.
//!
//! Stream content is a keyed function of (connection key, stream id, direction, offset), so the
//! expected value of every byte is known without storing writes and any misplaced byte is detected.

use crate::spec::*;
use bytes::Bytes;
use quinn_proto::{
    Connection, Dir, Event, FinishError, ReadError, ReadableError, SendDatagramError, Side, StreamEvent, StreamId,
    VarInt, WriteError,
};
use std::cell::RefCell;
use std::collections::BTreeMap;
use std::rc::Rc;

#[derive(Clone, Debug)]
pub struct Viol {
    pub sig: String,
    pub msg: String,
}

/// What both applications of one connection know about each other's actions (the model)
#[derive(Default, Debug)]
pub struct Ledger {
    /// bytes accepted by `write`, per (stream id, direction: true = initiator→acceptor)
    pub written: BTreeMap<(u64, bool), u64>,
    /// final size once `finish()` returned Ok
    pub finished: BTreeMap<(u64, bool), u64>,
    /// code once `reset()` returned Ok
    pub reset: BTreeMap<(u64, bool), u64>,
    /// code once the reader called `stop()`
    pub stopped: BTreeMap<(u64, bool), u64>,
    /// datagrams for which send() returned Ok: id -> (sender is client, len)
    pub dgrams_sent: BTreeMap<u64, (bool, usize)>,
    pub dgrams_recv: BTreeMap<u64, u32>,
    pub next_dgram_id: u64,
    /// Reference model of each side's datagram receive buffer: [client, server] -> FIFO of (id, len),
    /// fed by the world with DATAGRAM frames the connection actually processed
    pub dg_model: [std::collections::VecDeque<(Option<u64>, usize)>; 2],
    pub dg_evicted: u64,
    /// the model is only fed when the wire is observable (SimCrypto)
    pub dg_model_enabled: bool,
    pub viol: Vec<Viol>,
    /// closing: (side that called close, code, reason)
    pub closed_by: Option<(Side, u64, Vec<u8>)>,
    /// C17: content key the client used for data written before the handshake completed in a world
    /// whose server rejects early data; anything readable under this key at the server application
    /// is early data that must have vanished (None = no recognition, the default)
    pub early_key: Option<u64>,
    /// C17: ids of datagrams the client sent before a rejection of early data
    pub early_dgram_ids: std::collections::BTreeSet<u64>,
}

impl Ledger {
    /// A DATAGRAM frame was processed by the receiving connection `side_idx` whose buffer holds
    /// at most `cap` bytes: evict oldest first until it fits
    pub fn dg_arrived(&mut self, side_idx: usize, id: Option<u64>, len: usize, cap: usize) {
        let q = &mut self.dg_model[side_idx];
        // every buffered datagram occupies at least one byte of the buffer (empty datagrams included)
        let cost = len.max(1);
        if cost > cap {
            self.dg_evicted += 1;
            return;
        }
        let mut used: usize = q.iter().map(|x| x.1.max(1)).sum();
        while used + cost > cap {
            match q.pop_front() {
                Some((_, l)) => {
                    used -= l.max(1);
                    self.dg_evicted += 1;
                }
                None => break,
            }
        }
        q.push_back((id, len));
    }
    pub fn fail(&mut self, sig: &str, msg: String) {
        if self.viol.len() < 8 {
            self.viol.push(Viol { sig: sig.to_string(), msg });
        }
    }
}

pub type SharedLedger = Rc<RefCell<Ledger>>;

pub fn content_block(key: u64, id: u64, fwd: bool, block: u64) -> [u8; 8] {
    crate::core::mix(crate::core::mix(key ^ id.wrapping_mul(0x100000001b3), fwd as u64 + 0x77), block).to_le_bytes()
}

pub fn fill_content(key: u64, id: u64, fwd: bool, offset: u64, out: &mut [u8]) {
    let mut off = offset;
    let mut i = 0;
    while i < out.len() {
        let blk = content_block(key, id, fwd, off / 8);
        let s = (off % 8) as usize;
        let n = (8 - s).min(out.len() - i);
        out[i..i + n].copy_from_slice(&blk[s..s + n]);
        i += n;
        off += n as u64;
    }
}

pub fn check_content(key: u64, id: u64, fwd: bool, offset: u64, data: &[u8]) -> Option<usize> {
    let mut off = offset;
    let mut i = 0;
    while i < data.len() {
        let blk = content_block(key, id, fwd, off / 8);
        let s = (off % 8) as usize;
        let n = (8 - s).min(data.len() - i);
        if data[i..i + n] != blk[s..s + n] {
            for j in 0..n {
                if data[i + j] != blk[s + j] {
                    return Some(i + j);
                }
            }
        }
        i += n;
        off += n as u64;
    }
    None
}

/// Datagram payload: 8-byte id, then keyed content
pub fn dgram_payload(key: u64, id: u64, len: usize) -> Vec<u8> {
    let mut v = vec![0u8; len];
    if len >= 8 {
        v[..8].copy_from_slice(&id.to_be_bytes());
        fill_content(key ^ 0xd6, id, true, 0, &mut v[8..]);
    } else {
        // too short to carry an id: content derived from length only
        fill_content(key ^ 0xd7, len as u64, true, 0, &mut v);
    }
    v
}

#[derive(Debug)]
pub struct SendSt {
    pub fwd: bool,
    pub total: u64,
    pub written: u64,
    pub chunks: Vec<u32>,
    pub chunk_i: usize,
    pub use_write_chunks: bool,
    pub end: EndSpec,
    pub done: bool,
    pub finished_ev: u32,
    pub stopped_ev: u32,
    pub blocked: bool,
    pub closed: bool,
}

#[derive(Debug)]
pub struct RecvSt {
    pub fwd: bool,
    pub reader: ReaderSpec,
    pub next_off: u64,
    pub bytes: u64,
    /// disjoint sorted ranges returned so far (unordered mode)
    pub got: Vec<(u64, u64)>,
    pub unordered_used: bool,
    pub terminal: Option<&'static str>,
    pub want_read: bool,
    pub reads: u64,
}

impl RecvSt {
    fn insert_range(&mut self, lo: u64, hi: u64) -> bool {
        // returns false on overlap
        if lo == hi {
            return true;
        }
        let pos = self.got.partition_point(|r| r.1 <= lo);
        if pos < self.got.len() && self.got[pos].0 < hi {
            return false;
        }
        self.got.insert(pos, (lo, hi));
        // merge neighbours
        let mut i = pos.saturating_sub(1);
        while i + 1 < self.got.len() {
            if self.got[i].1 == self.got[i + 1].0 {
                self.got[i].1 = self.got[i + 1].1;
                self.got.remove(i + 1);
            } else {
                i += 1;
            }
            if i > pos + 1 {
                break;
            }
        }
        true
    }
    pub fn covers(&self, end: u64) -> bool {
        if end == 0 {
            return true;
        }
        self.got.len() == 1 && self.got[0] == (0, end)
    }
}

#[derive(Debug, Default, Clone)]
pub struct AppStats {
    pub write_blocked: u64,
    pub open_blocked: u64,
    pub partial_writes: u64,
    pub bytes_read: u64,
    pub unordered_reads: u64,
    pub resets_seen: u64,
    pub stops_done: u64,
    pub dgram_sent: u64,
    pub dgram_too_large: u64,
    pub dgram_blocked: u64,
    pub dgram_recv: u64,
    pub dgram_at_max: u64,
    pub key_updates: u64,
}

pub struct App {
    pub side: Side,
    pub key: u64,
    pub mine: SideLoad,
    pub theirs: SideLoad,
    pub ledger: SharedLedger,
    pub started: bool,
    pub connected: bool,
    pub lost: Vec<String>,
    pub lost_reasons: Vec<quinn_proto::ConnectionError>,
    pub send: BTreeMap<u64, SendSt>,
    pub recv: BTreeMap<u64, RecvSt>,
    pub opened: [usize; 2],
    pub op_i: usize,
    pub closed_locally: bool,
    pub stats: AppStats,
    pub events: Vec<String>,
    pub record_events: bool,
    pub wants_turn: bool,
    pub data_after_close: u64,
    pub dgram_events: u64,
    pub dgram_blocked_pending: bool,
    pub unblocked_events: u64,
    pub last_sent_dgram: u64,
    /// (local datagram_receive_buffer_size, local datagram_send_buffer_size)
    pub dgram_cfg: (Option<usize>, usize),
    pub peer_dgram_recv: Option<usize>,
    /// manual mode: events are only queued in `manual_events`; the check operates the connection
    pub manual: bool,
    pub manual_events: Vec<Event>,
    /// C17: the workload was started before `Connected` (0-RTT); datagram ops are then executed before
    /// the handshake completes as well
    pub early: bool,
    /// C17: called at `Connected` before the workload is (re)started; lets a check inspect the
    /// connection at that instant and rewind the application state after a rejection of early data
    pub pre_connected: Option<Box<dyn FnMut(&mut App, &mut Connection)>>,
}

fn dir_of(bidi: bool) -> Dir {
    if bidi {
        Dir::Bi
    } else {
        Dir::Uni
    }
}

fn sid_u64(id: StreamId) -> u64 {
    VarInt::from(id).into_inner()
}

impl App {
    pub fn new(side: Side, key: u64, mine: SideLoad, theirs: SideLoad, ledger: SharedLedger) -> Self {
        let mut mine = mine;
        mine.ops.sort_by_key(|o| o.at_us);
        Self {
            side,
            key,
            mine,
            theirs,
            ledger,
            started: false,
            connected: false,
            lost: vec![],
            lost_reasons: vec![],
            send: BTreeMap::new(),
            recv: BTreeMap::new(),
            opened: [0, 0],
            op_i: 0,
            closed_locally: false,
            stats: AppStats::default(),
            events: vec![],
            record_events: false,
            wants_turn: false,
            data_after_close: 0,
            dgram_events: 0,
            dgram_blocked_pending: false,
            unblocked_events: 0,
            last_sent_dgram: 0,
            dgram_cfg: (Some(usize::MAX), usize::MAX),
            peer_dgram_recv: None,
            manual: false,
            manual_events: vec![],
            early: false,
            pre_connected: None,
        }
    }

    fn nth_spec(list: &[StreamSpec], bidi: bool, n: usize) -> Option<&StreamSpec> {
        list.iter().filter(|s| s.bidi == bidi).nth(n)
    }

    /// Spec of the stream with this id (looked up in the initiator's list)
    fn spec_for(&self, id: StreamId) -> Option<StreamSpec> {
        let list = if id.initiator() == self.side { &self.mine.streams } else { &self.theirs.streams };
        Self::nth_spec(list, id.dir() == Dir::Bi, id.index() as usize).cloned()
    }

    pub fn next_op_time(&self) -> Option<u32> {
        self.mine.ops.get(self.op_i).map(|o| o.at_us)
    }

    pub fn on_event(&mut self, c: &mut Connection, ev: Event) {
        if self.record_events {
            self.events.push(format!("{ev:?}"));
        }
        if self.manual {
            match &ev {
                Event::Connected => self.connected = true,
                Event::ConnectionLost { reason } => {
                    self.lost.push(format!("{reason:?}"));
                    self.lost_reasons.push(reason.clone());
                }
                _ => {}
            }
            self.manual_events.push(ev);
            return;
        }
        match ev {
            Event::Connected => {
                self.connected = true;
                if let Some(mut h) = self.pre_connected.take() {
                    h(self, c);
                    self.pre_connected = Some(h);
                }
                self.start(c);
            }
            Event::HandshakeDataReady | Event::HandshakeConfirmed => {}
            Event::ConnectionLost { reason } => {
                self.lost.push(format!("{reason:?}"));
                self.lost_reasons.push(reason);
            }
            Event::Stream(se) => {
                if !self.lost.is_empty() || self.closed_locally {
                    // events after termination are checked by C08; keep going to drain reads
                }
                match se {
                    StreamEvent::Opened { dir } => self.accept_all(c, dir),
                    StreamEvent::Readable { id } => self.read_stream(c, id),
                    StreamEvent::Writable { id } => self.write_stream(c, id),
                    StreamEvent::Finished { id } => {
                        if let Some(s) = self.send.get_mut(&sid_u64(id)) {
                            s.finished_ev += 1;
                        } else {
                            self.ledger.borrow_mut().fail("app/finished-unknown", format!("Finished for unknown stream {id}"));
                        }
                    }
                    StreamEvent::Stopped { id, error_code } => {
                        let k = sid_u64(id);
                        if let Some(s) = self.send.get_mut(&k) {
                            s.stopped_ev += 1;
                            let fwd = s.fwd;
                            let want = self.ledger.borrow().stopped.get(&(k, fwd)).copied();
                            if want != Some(error_code.into_inner()) {
                                self.ledger.borrow_mut().fail(
                                    "c11/stopped-code",
                                    format!("Stopped{{{id}, {error_code}}} but reader stop ledger says {want:?}"),
                                );
                            }
                            // RFC 9000 §3.5: respond to STOP_SENDING by resetting with the same code
                            if !s.done {
                                if c.send_stream(id).reset(error_code).is_ok() {
                                    self.ledger.borrow_mut().reset.insert((k, fwd), error_code.into_inner());
                                }
                                s.done = true;
                            }
                        }
                    }
                    StreamEvent::Available { dir } => {
                        let _ = dir;
                        self.open_more(c);
                    }
                }
            }
            Event::DatagramReceived => {
                self.dgram_events += 1;
                let every = self.mine.dgram_recv_every.max(1) as u64;
                if self.dgram_events % every == 0 {
                    self.recv_dgrams(c);
                }
            }
            Event::DatagramsUnblocked => {
                self.unblocked_events += 1;
                self.dgram_blocked_pending = false;
            }
        }
    }

    /// Begin the workload (at Connected, or earlier for 0-RTT)
    pub fn start(&mut self, c: &mut Connection) {
        self.started = true;
        self.open_more(c);
    }

    fn open_more(&mut self, c: &mut Connection) {
        if !self.started {
            return;
        }
        for bidi in [false, true] {
            loop {
                let di = bidi as usize;
                let Some(spec) = Self::nth_spec(&self.mine.streams, bidi, self.opened[di]).cloned() else { break };
                match c.streams().open(dir_of(bidi)) {
                    Some(id) => {
                        if id.index() as usize != self.opened[di] || id.initiator() != self.side || (id.dir() == Dir::Bi) != bidi {
                            self.ledger.borrow_mut().fail(
                                "app/open-id",
                                format!("open({bidi}) returned {id} but expected index {}", self.opened[di]),
                            );
                        }
                        self.opened[di] += 1;
                        let k = sid_u64(id);
                        if spec.priority != 0 {
                            let _ = c.send_stream(id).set_priority(spec.priority as i32);
                        }
                        self.send.insert(
                            k,
                            SendSt {
                                fwd: true,
                                total: spec.total as u64,
                                written: 0,
                                chunks: spec.chunks.clone(),
                                chunk_i: 0,
                                use_write_chunks: spec.use_write_chunks,
                                end: spec.end.clone(),
                                done: false,
                                finished_ev: 0,
                                stopped_ev: 0,
                                blocked: false,
                                closed: false,
                            },
                        );
                        if bidi {
                            self.recv.insert(
                                k,
                                RecvSt {
                                    fwd: false,
                                    reader: ReaderSpec {
                                        ordered: spec.resp_reader_ordered,
                                        switch_unordered_after: None,
                                        max_len: u32::MAX,
                                        chunks_per_turn: 0,
                                        stop: None,
                                    },
                                    next_off: 0,
                                    bytes: 0,
                                    got: vec![],
                                    unordered_used: false,
                                    terminal: None,
                                    want_read: false,
                                    reads: 0,
                                },
                            );
                        }
                        self.write_stream(c, id);
                    }
                    None => {
                        self.stats.open_blocked += 1;
                        break;
                    }
                }
            }
        }
    }

    fn accept_all(&mut self, c: &mut Connection, dir: Dir) {
        while let Some(id) = c.streams().accept(dir) {
            let k = sid_u64(id);
            if id.initiator() == self.side || id.dir() != dir {
                self.ledger.borrow_mut().fail("app/accept-id", format!("accept({dir:?}) returned {id}"));
                continue;
            }
            if self.recv.contains_key(&k) {
                self.ledger.borrow_mut().fail("c11/accept-twice", format!("stream {id} accepted twice"));
                continue;
            }
            let Some(spec) = self.spec_for(id) else {
                self.ledger.borrow_mut().fail(
                    "c09/unknown-stream",
                    format!("accepted stream {id} which the peer's workload never opens"),
                );
                continue;
            };
            self.recv.insert(
                k,
                RecvSt {
                    fwd: true,
                    reader: spec.reader.clone(),
                    next_off: 0,
                    bytes: 0,
                    got: vec![],
                    unordered_used: false,
                    terminal: None,
                    want_read: false,
                    reads: 0,
                },
            );
            if dir == Dir::Bi {
                self.send.insert(
                    k,
                    SendSt {
                        fwd: false,
                        total: spec.resp_total as u64,
                        written: 0,
                        chunks: vec![u32::MAX],
                        chunk_i: 0,
                        use_write_chunks: false,
                        end: EndSpec::Finish,
                        done: false,
                        finished_ev: 0,
                        stopped_ev: 0,
                        blocked: false,
                        closed: false,
                    },
                );
                self.write_stream(c, id);
            }
            self.read_stream(c, id);
        }
    }

    pub fn write_stream(&mut self, c: &mut Connection, id: StreamId) {
        let k = sid_u64(id);
        let key = self.key;
        let Some(s) = self.send.get_mut(&k) else { return };
        if s.done || s.closed {
            return;
        }
        s.blocked = false;
        let reset_at = match s.end {
            EndSpec::Reset { after, .. } => Some((after as u64 * (s.total + 1)) >> 16),
            _ => None,
        };
        let mut guard = 0;
        loop {
            guard += 1;
            if guard > 1_000_000 {
                self.ledger.borrow_mut().fail("app/write-loop", format!("write loop did not terminate on {id}"));
                return;
            }
            if let (Some(at), EndSpec::Reset { code, .. }) = (reset_at, &s.end) {
                if s.written >= at {
                    let code = *code as u64;
                    match c.send_stream(id).reset(VarInt::from_u64(code).unwrap()) {
                        Ok(()) => {
                            self.ledger.borrow_mut().reset.insert((k, s.fwd), code);
                        }
                        Err(_) => {
                            s.closed = true;
                        }
                    }
                    s.done = true;
                    return;
                }
            }
            if s.written >= s.total {
                break;
            }
            let limit = reset_at.filter(|&a| a > s.written).unwrap_or(s.total);
            let chunk = s.chunks[s.chunk_i % s.chunks.len()] as u64;
            let n = chunk.min(limit - s.written).max(1) as usize;
            let mut buf = vec![0u8; n];
            fill_content(key, k, s.fwd, s.written, &mut buf);
            let res = if s.use_write_chunks {
                let half = n / 2;
                let b = Bytes::from(buf);
                let mut parts = [b.slice(..half), b.slice(half..)];
                c.send_stream(id).write_chunks(&mut parts).map(|w| w.bytes)
            } else {
                c.send_stream(id).write(&buf)
            };
            match res {
                Ok(w) => {
                    if w == 0 || w > n {
                        self.ledger.borrow_mut().fail("c05/write-count", format!("write of {n} bytes on {id} returned Ok({w})"));
                        return;
                    }
                    if w < n {
                        self.stats.partial_writes += 1;
                    }
                    s.written += w as u64;
                    s.chunk_i += 1;
                    self.ledger.borrow_mut().written.insert((k, s.fwd), s.written);
                }
                Err(WriteError::Blocked) => {
                    s.blocked = true;
                    self.stats.write_blocked += 1;
                    return;
                }
                Err(WriteError::Stopped(code)) => {
                    let want = self.ledger.borrow().stopped.get(&(k, s.fwd)).copied();
                    if want != Some(code.into_inner()) {
                        self.ledger.borrow_mut().fail(
                            "c11/write-stopped-code",
                            format!("write on {id} returned Stopped({code}) but reader stop ledger says {want:?}"),
                        );
                    }
                    if c.send_stream(id).reset(code).is_ok() {
                        self.ledger.borrow_mut().reset.insert((k, s.fwd), code.into_inner());
                    }
                    s.done = true;
                    return;
                }
                Err(WriteError::ClosedStream) => {
                    // legal only if the stream was stopped+reset, or the connection is gone
                    s.closed = true;
                    s.done = true;
                    return;
                }
            }
        }
        // everything written
        match s.end {
            EndSpec::Finish => match c.send_stream(id).finish() {
                Ok(()) => {
                    self.ledger.borrow_mut().finished.insert((k, s.fwd), s.written);
                    s.done = true;
                }
                Err(FinishError::Stopped(code)) => {
                    if c.send_stream(id).reset(code).is_ok() {
                        self.ledger.borrow_mut().reset.insert((k, s.fwd), code.into_inner());
                    }
                    s.done = true;
                }
                Err(FinishError::ClosedStream) => {
                    s.closed = true;
                    s.done = true;
                }
            },
            EndSpec::Leave => {
                s.done = true;
            }
            EndSpec::Reset { .. } => {}
        }
    }

    pub fn read_stream(&mut self, c: &mut Connection, id: StreamId) {
        let k = sid_u64(id);
        let key = self.key;
        let Some(st) = self.recv.get_mut(&k) else {
            // Readable for a stream we have not accepted yet: accept first
            if id.initiator() != self.side {
                self.accept_all(c, id.dir());
            }
            return;
        };
        if st.terminal.is_some() {
            return;
        }
        st.want_read = false;
        let fwd = st.fwd;
        let ordered = st.reader.ordered
            && st.reader.switch_unordered_after.map_or(true, |n| st.bytes < n as u64)
            && !st.unordered_used;
        let mut rs = c.recv_stream(id);
        let mut stop_now = None;
        {
        let res = rs.read(ordered);
        let mut chunks = match res {
            Ok(ch) => ch,
            Err(ReadableError::ClosedStream) => {
                // Legal if the stream is terminal from the receiver's perspective. We only get here
                // without a terminal outcome if the connection dropped the stream.
                st.terminal = Some("closed-before-terminal");
                return;
            }
            Err(ReadableError::IllegalOrderedRead) => {
                self.ledger.borrow_mut().fail("c11/illegal-ordered", format!("IllegalOrderedRead on {id} although no unordered read was made"));
                return;
            }
        };
        if !ordered {
            st.unordered_used = true;
        }
        let mut n_chunks = 0u32;
        let max_len = if st.reader.max_len == u32::MAX { usize::MAX } else { st.reader.max_len as usize };
        loop {
            if st.reader.chunks_per_turn != 0 && n_chunks >= st.reader.chunks_per_turn as u32 {
                st.want_read = true;
                self.wants_turn = true;
                break;
            }
            if let Some((after, code)) = st.reader.stop {
                if st.bytes >= after as u64 {
                    stop_now = Some(code);
                    break;
                }
            }
            // a reader that changes to unordered reads after N bytes takes exactly those N bytes in order
            // (like read_exact for a header followed by read_to_end), whatever else is buffered by then
            let mut lim = max_len;
            if ordered {
                if let Some(n) = st.reader.switch_unordered_after {
                    let left = (n as u64).saturating_sub(st.bytes) as usize;
                    if left == 0 {
                        st.want_read = true;
                        self.wants_turn = true;
                        break;
                    }
                    lim = lim.min(left);
                }
            }
            match chunks.next(lim) {
                Ok(Some(chunk)) => {
                    n_chunks += 1;
                    st.reads += 1;
                    let len = chunk.bytes.len() as u64;
                    let mut l = self.ledger.borrow_mut();
                    if chunk.bytes.is_empty() {
                        l.fail("c01/empty-chunk", format!("empty chunk at {} on {id}", chunk.offset));
                    }
                    if chunk.bytes.len() > max_len {
                        l.fail("c01/max-length", format!("chunk of {} bytes exceeds max_length {max_len} on {id}", chunk.bytes.len()));
                    }
                    let written = l.written.get(&(k, fwd)).copied().unwrap_or(0);
                    if chunk.offset + len > written {
                        l.fail(
                            "c01/beyond-written",
                            format!("read [{}, {}) on {id} but only {written} bytes were written", chunk.offset, chunk.offset + len),
                        );
                    }
                    if ordered {
                        if chunk.offset != st.next_off {
                            l.fail(
                                "c01/ordered-offset",
                                format!("ordered read on {id} returned offset {} but {} bytes were read so far", chunk.offset, st.next_off),
                            );
                        }
                        st.next_off = chunk.offset + len;
                    } else {
                        self.stats.unordered_reads += 1;
                    }
                    if !st.insert_range(chunk.offset, chunk.offset + len) {
                        l.fail(
                            "c01/duplicate-bytes",
                            format!("read on {id} returned [{}, {}) overlapping previously returned data", chunk.offset, chunk.offset + len),
                        );
                    }
                    let early = match (check_content(key, k, fwd, chunk.offset, &chunk.bytes), l.early_key) {
                        (Some(_), Some(ek)) if fwd && self.side.is_server() => check_content(ek, k, fwd, chunk.offset, &chunk.bytes).is_none(),
                        _ => false,
                    };
                    if early {
                        l.viol.insert(0, Viol {
                            sig: "c17/early-data-visible".into(),
                            msg: format!("the server application read [{}, {}) on {id} and obtained bytes the client wrote before the handshake completed, although the server rejected early data", chunk.offset, chunk.offset + len),
                        });
                    } else if let Some(bad) = check_content(key, k, fwd, chunk.offset, &chunk.bytes) {
                        l.fail(
                            "c01/content",
                            format!("byte at offset {} of {id} differs from what was written (chunk [{}, {}))", chunk.offset + bad as u64, chunk.offset, chunk.offset + len),
                        );
                    }
                    st.bytes += len;
                    self.stats.bytes_read += len;
                    if l.closed_by.as_ref().is_some_and(|(s, _, _)| *s == self.side) {
                        // reading buffered data after a local close is allowed
                    }
                }
                Ok(None) => {
                    let mut l = self.ledger.borrow_mut();
                    match l.finished.get(&(k, fwd)).copied() {
                        None => l.fail("c01/fin-without-finish", format!("end of stream on {id} but sender never finished")),
                        Some(fin) => {
                            if !st.covers(fin) {
                                l.fail(
                                    "c01/fin-incomplete",
                                    format!("end of stream on {id} (final size {fin}) but delivered ranges are {:?}", st.got),
                                );
                            }
                        }
                    }
                    st.terminal = Some("fin");
                    break;
                }
                Err(ReadError::Blocked) => break,
                Err(ReadError::Reset(code)) => {
                    let mut l = self.ledger.borrow_mut();
                    let want = l.reset.get(&(k, fwd)).copied();
                    if want != Some(code.into_inner()) {
                        l.fail("c01/reset-code", format!("read on {id} reported Reset({code}) but the sender's reset ledger says {want:?}"));
                    }
                    self.stats.resets_seen += 1;
                    st.terminal = Some("reset");
                    break;
                }
            }
        }
        let _ = chunks.finalize();
        }
        if let Some(code) = stop_now {
            if rs.stop(VarInt::from_u32(code)).is_ok() {
                self.ledger.borrow_mut().stopped.insert((k, fwd), code as u64);
                self.stats.stops_done += 1;
            }
            st.terminal = Some("stopped");
        }
    }

    fn recv_dgrams(&mut self, c: &mut Connection) {
        while let Some(d) = c.datagrams().recv() {
            self.stats.dgram_recv += 1;
            let mut l = self.ledger.borrow_mut();
            if l.dg_model_enabled {
                let got_id = if d.len() >= 8 { Some(u64::from_be_bytes(d[..8].try_into().unwrap())) } else { None };
                let side_idx = self.side.is_server() as usize;
                match l.dg_model[side_idx].pop_front() {
                    Some((id, len)) => {
                        if id != got_id || len != d.len() {
                            l.fail(
                                "c16/recv-order",
                                format!("recv() returned datagram id {got_id:?} ({} bytes) but the oldest-first buffer model expected id {id:?} ({len} bytes)", d.len()),
                            );
                        }
                    }
                    None => l.fail("c16/recv-unexpected", format!("recv() returned datagram id {got_id:?} but the receive buffer model is empty")),
                }
            }
            if let Some(ek) = l.early_key {
                let id = if d.len() >= 8 { u64::from_be_bytes(d[..8].try_into().unwrap()) } else { 0 };
                let is_early = self.side.is_server()
                    && !d.is_empty()
                    && ((d.len() >= 8 && l.early_dgram_ids.contains(&id)) || (dgram_payload(ek, id, d.len())[..] == d[..] && dgram_payload(self.key, id, d.len())[..] != d[..]));
                if is_early {
                    l.viol.insert(0, Viol {
                        sig: "c17/early-datagram-visible".into(),
                        msg: format!("the server application received a {}-byte datagram (id {id}) the client sent before the handshake completed, although the server rejected early data", d.len()),
                    });
                    continue;
                }
            }
            if d.len() >= 8 {
                let id = u64::from_be_bytes(d[..8].try_into().unwrap());
                match l.dgrams_sent.get(&id).copied() {
                    Some((from_client, len)) if from_client != self.side.is_client() && len == d.len() => {
                        let want = dgram_payload(self.key, id, len);
                        if want[..] != d[..] {
                            l.fail("c16/content", format!("datagram {id} content differs from what was sent"));
                        }
                        let n = {
                            let n = l.dgrams_recv.entry(id).or_insert(0);
                            *n += 1;
                            *n
                        };
                        if n > 1 {
                            l.fail("c16/duplicate", format!("datagram {id} delivered {n} times"));
                        }
                    }
                    other => l.fail(
                        "c16/unknown",
                        format!("received datagram of {} bytes with id {id}, sender record {other:?}", d.len()),
                    ),
                }
            } else {
                let want = dgram_payload(self.key, 0, d.len());
                if want[..] != d[..] {
                    l.fail("c16/content-short", format!("short datagram of {} bytes differs from what was sent", d.len()));
                }
            }
        }
    }

    /// Run scripted ops due at `t_us` and pending lazy reads
    pub fn turn(&mut self, c: &mut Connection, t_us: u64, now: std::time::Instant) {
        self.wants_turn = false;
        while let Some(op) = self.mine.ops.get(self.op_i) {
            if op.at_us as u64 > t_us {
                break;
            }
            let op = op.op.clone();
            self.op_i += 1;
            if self.closed_locally || !self.lost.is_empty() {
                continue;
            }
            match op {
                AuxOp::KeyUpdate => {
                    // force_key_update panics before the handshake completes (documented)
                    if self.connected && !c.is_closed() {
                        c.force_key_update();
                        self.stats.key_updates += 1;
                    }
                }
                AuxOp::Ping => c.ping(),
                AuxOp::SetRecvWindow(w) => c.set_receive_window(VarInt::from_u64(w).unwrap()),
                AuxOp::SetSendWindow(w) => {
                    c.set_send_window(w);
                    // wake writers: a larger send window does not generate Writable events
                    let ids: Vec<u64> = self.send.iter().filter(|(_, s)| s.blocked).map(|(k, _)| *k).collect();
                    for k in ids {
                        self.write_stream(c, stream_id(k));
                    }
                }
                AuxOp::SetMaxStreams { bidi, n } => c.set_max_concurrent_streams(dir_of(bidi), VarInt::from_u64(n).unwrap()),
                AuxOp::Datagram { size, drop } => self.send_dgram(c, size as usize, drop),
                AuxOp::DatagramRel { delta, drop } => {
                    if let Some(m) = c.datagrams().max_size() {
                        let size = (m as i64 + delta as i64).max(0) as usize;
                        self.send_dgram(c, size, drop);
                    } else {
                        self.send_dgram(c, 100, drop);
                    }
                }
                AuxOp::Close { code, reason_len } => {
                    let reason = vec![b'r'; reason_len as usize];
                    self.ledger.borrow_mut().closed_by.get_or_insert((self.side, code as u64, reason.clone()));
                    c.close(now, VarInt::from_u32(code), Bytes::from(reason));
                    self.closed_locally = true;
                }
                AuxOp::LocalAddrChanged => c.local_address_changed(),
                AuxOp::PathChanged => c.path_changed(now),
                AuxOp::ResetOpen { nth, code } => {
                    let ids: Vec<u64> = self.send.iter().filter(|(_, s)| s.fwd && !s.done && !s.closed).map(|(k, _)| *k).collect();
                    if !ids.is_empty() {
                        let k = ids[nth as usize % ids.len()];
                        if c.send_stream(stream_id(k)).reset(VarInt::from_u32(code)).is_ok() {
                            self.ledger.borrow_mut().reset.insert((k, true), code as u64);
                        }
                        if let Some(s) = self.send.get_mut(&k) {
                            s.done = true;
                            s.end = EndSpec::Reset { code, after: 0 };
                        }
                    }
                }
            }
        }
        let ids: Vec<u64> = self.recv.iter().filter(|(_, s)| s.want_read && s.terminal.is_none()).map(|(k, _)| *k).collect();
        for k in ids {
            self.read_stream(c, stream_id(k));
        }
    }

    pub fn send_dgram(&mut self, c: &mut Connection, size: usize, drop: bool) {
        if c.is_closed() || !(self.connected || self.early) {
            return;
        }
        let id = {
            let mut l = self.ledger.borrow_mut();
            l.next_dgram_id += 1;
            l.next_dgram_id
        };
        let payload = dgram_payload(self.key, id, size);
        let max = c.datagrams().max_size();
        let space = c.datagrams().send_buffer_space();
        let p = c.verif_probe();
        let cfg_send = self.dgram_cfg.1;
        let expect: &str = if self.dgram_cfg.0.is_none() {
            "Disabled"
        } else if max.is_none() {
            "UnsupportedByPeer"
        } else if size > max.unwrap().min(cfg_send) {
            "TooLarge"
        } else if !drop && p.datagram_outgoing_total + size > cfg_send {
            "Blocked"
        } else {
            "Ok"
        };
        if space != cfg_send.saturating_sub(p.datagram_outgoing_total) {
            self.ledger.borrow_mut().fail(
                "c16/buffer-space",
                format!("send_buffer_space() = {space} but configured {cfg_send} minus queued {} differs", p.datagram_outgoing_total),
            );
        }
        if let Some(m) = max {
            if m + 1 > p.current_mtu as usize {
                self.ledger.borrow_mut().fail("c16/max-size-mtu", format!("max_size() = {m} does not fit a packet on the current path MTU {}", p.current_mtu));
            }
            if let Some(peer) = self.peer_dgram_recv {
                if m > peer {
                    self.ledger.borrow_mut().fail("c16/max-size-peer", format!("max_size() = {m} exceeds the peer's advertised limit {peer}"));
                }
            }
        }
        let got = match c.datagrams().send(Bytes::from(payload), drop) {
            Ok(()) => {
                self.stats.dgram_sent += 1;
                self.last_sent_dgram = id;
                self.ledger.borrow_mut().dgrams_sent.insert(id, (self.side.is_client(), size));
                if max == Some(size) {
                    self.stats.dgram_at_max += 1;
                }
                "Ok"
            }
            Err(SendDatagramError::TooLarge) => {
                self.stats.dgram_too_large += 1;
                "TooLarge"
            }
            Err(SendDatagramError::Blocked(_)) => {
                self.stats.dgram_blocked += 1;
                self.dgram_blocked_pending = true;
                "Blocked"
            }
            Err(SendDatagramError::Disabled) => "Disabled",
            Err(SendDatagramError::UnsupportedByPeer) => "UnsupportedByPeer",
        };
        if got != expect {
            self.ledger.borrow_mut().fail(
                "c16/send-result",
                format!("send({size} bytes, drop={drop}) returned {got} but the model expects {expect} (max_size {max:?}, send buffer {cfg_send}, queued {})", p.datagram_outgoing_total),
            );
        }
    }

    /// Whether every stream this side must complete is complete (C02's completion predicate)
    pub fn outgoing_complete(&self) -> bool {
        // all planned streams opened, written, and (for Finish) acknowledged
        for bidi in [false, true] {
            let planned = self.mine.streams.iter().filter(|s| s.bidi == bidi).count();
            if self.opened[bidi as usize] < planned {
                return false;
            }
        }
        self.send.values().all(|s| {
            s.done
                && match s.end {
                    EndSpec::Finish => s.finished_ev > 0 || s.closed || s.stopped_ev > 0,
                    _ => true,
                }
        })
    }
}

pub fn stream_id(k: u64) -> StreamId {
    // StreamId has no public constructor from u64 except via VarInt
    StreamId::from(VarInt::from_u64(k).unwrap())
}
