//! Translation of scenario specs into quinn configuration objects, plus harness plug-ins
//! (seeded CID generator, scripted congestion controller, virtual clock).

use crate::simcrypto::*;
use crate::spec::*;
use quinn_proto::congestion::{self, Controller, ControllerFactory};
use quinn_proto::{
    AckFrequencyConfig, ConnectionId, ConnectionIdGenerator, EndpointConfig, HashedConnectionIdGenerator, IdleTimeout,
    MtuDiscoveryConfig, RandomConnectionIdGenerator, RttEstimator, TimeSource, TransportConfig, VarInt,
};
use std::any::Any;
use std::sync::atomic::{AtomicU64, Ordering};
use std::sync::{Arc, Mutex};
use std::time::{Duration, Instant, SystemTime, UNIX_EPOCH};

pub struct SeededCid {
    pub len: usize,
    pub lifetime: Option<Duration>,
    pub state: u64,
}

impl ConnectionIdGenerator for SeededCid {
    fn generate_cid(&mut self) -> ConnectionId {
        let mut b = [0u8; 24];
        for i in 0..3 {
            self.state = crate::core::mix(self.state, 0xc1d);
            b[i * 8..i * 8 + 8].copy_from_slice(&self.state.to_le_bytes());
        }
        ConnectionId::new(&b[..self.len])
    }
    fn cid_len(&self) -> usize {
        self.len
    }
    fn cid_lifetime(&self) -> Option<Duration> {
        self.lifetime
    }
}

/// Virtual wall clock for token timestamps
#[derive(Clone)]
pub struct SimClock(pub Arc<AtomicU64>);
impl TimeSource for SimClock {
    fn now(&self) -> SystemTime {
        UNIX_EPOCH + Duration::from_secs(1_700_000_000) + Duration::from_micros(self.0.load(Ordering::Relaxed))
    }
}

#[derive(Debug, Clone)]
pub enum CcCall {
    Sent { bytes: u64, pn: u64 },
    Ack { bytes: u64, app_limited: bool },
    EndAcks { in_flight: u64, largest_acked: Option<u64> },
    Congestion { persistent: bool, ecn: bool, lost_bytes: u64 },
    Spurious,
    Mtu(u16),
}

#[derive(Debug, Default)]
pub struct CcLog {
    pub calls: Vec<CcCall>,
    pub min_window_returned: u64,
}

/// Congestion controller with an adversarially changing window (always >= 2 MTU) that records calls
#[derive(Debug, Clone)]
pub struct ScriptedController {
    pub windows: Arc<Vec<u16>>,
    pub idx: Arc<AtomicU64>,
    pub mtu: u16,
    pub log: Arc<Mutex<CcLog>>,
}

impl ScriptedController {
    fn step(&self) {
        self.idx.fetch_add(1, Ordering::Relaxed);
    }
}

impl Controller for ScriptedController {
    fn on_sent(&mut self, _now: Instant, bytes: u64, last_packet_number: u64) {
        self.log.lock().unwrap().calls.push(CcCall::Sent { bytes, pn: last_packet_number });
    }
    fn on_ack(&mut self, _now: Instant, _sent: Instant, bytes: u64, app_limited: bool, _rtt: &RttEstimator) {
        self.log.lock().unwrap().calls.push(CcCall::Ack { bytes, app_limited });
    }
    fn on_end_acks(&mut self, _now: Instant, in_flight: u64, _app_limited: bool, largest: Option<u64>) {
        self.log.lock().unwrap().calls.push(CcCall::EndAcks { in_flight, largest_acked: largest });
        self.step();
    }
    fn on_congestion_event(&mut self, _now: Instant, _sent: Instant, persistent: bool, ecn: bool, lost_bytes: u64) {
        self.log.lock().unwrap().calls.push(CcCall::Congestion { persistent, ecn, lost_bytes });
        self.step();
    }
    fn on_spurious_congestion_event(&mut self) {
        self.log.lock().unwrap().calls.push(CcCall::Spurious);
    }
    fn on_mtu_update(&mut self, new_mtu: u16) {
        self.mtu = new_mtu;
        self.log.lock().unwrap().calls.push(CcCall::Mtu(new_mtu));
    }
    fn window(&self) -> u64 {
        let i = self.idx.load(Ordering::Relaxed) as usize;
        let w = self.windows[i % self.windows.len()].max(2) as u64 * self.mtu as u64;
        w
    }
    fn clone_box(&self) -> Box<dyn Controller> {
        Box::new(self.clone())
    }
    fn initial_window(&self) -> u64 {
        self.windows[0].max(2) as u64 * self.mtu as u64
    }
    fn into_any(self: Box<Self>) -> Box<dyn Any> {
        self
    }
}

pub struct ScriptedFactory {
    pub windows: Arc<Vec<u16>>,
    pub log: Arc<Mutex<CcLog>>,
}

impl ControllerFactory for ScriptedFactory {
    fn build(self: Arc<Self>, _now: Instant, current_mtu: u16) -> Box<dyn Controller> {
        Box::new(ScriptedController {
            windows: self.windows.clone(),
            idx: Arc::new(AtomicU64::new(0)),
            mtu: current_mtu,
            log: self.log.clone(),
        })
    }
}

pub fn build_tc(s: &TcSpec, cc_log: Option<Arc<Mutex<CcLog>>>) -> TransportConfig {
    let mut t = TransportConfig::default();
    t.receive_window(VarInt::from_u64(s.recv_window.min((1 << 62) - 1)).unwrap());
    t.stream_receive_window(VarInt::from_u64(s.stream_recv_window.min((1 << 62) - 1)).unwrap());
    t.send_window(s.send_window);
    t.max_concurrent_bidi_streams(VarInt::from_u64(s.max_bidi).unwrap());
    t.max_concurrent_uni_streams(VarInt::from_u64(s.max_uni).unwrap());
    t.min_mtu(s.min_mtu);
    t.initial_mtu(s.initial_mtu);
    t.mtu_discovery_config(s.mtud.as_ref().map(|m| {
        let mut c = MtuDiscoveryConfig::default();
        c.upper_bound(m.upper.max(1200));
        c.interval(Duration::from_millis(m.interval_ms as u64));
        c.black_hole_cooldown(Duration::from_millis(m.cooldown_ms as u64));
        c.minimum_change(m.min_change);
        c
    }));
    t.pad_to_mtu(s.pad_to_mtu);
    t.enable_segmentation_offload(s.gso);
    match &s.cc {
        CcSpec::Cubic => {
            t.congestion_controller_factory(Arc::new(congestion::CubicConfig::default()));
        }
        CcSpec::NewReno => {
            t.congestion_controller_factory(Arc::new(congestion::NewRenoConfig::default()));
        }
        CcSpec::Bbr => {
            t.congestion_controller_factory(Arc::new(congestion::BbrConfig::default()));
        }
        CcSpec::Scripted(w) => {
            t.congestion_controller_factory(Arc::new(ScriptedFactory {
                windows: Arc::new(if w.is_empty() { vec![10] } else { w.clone() }),
                log: cc_log.unwrap_or_default(),
            }));
        }
    }
    t.max_outgoing_bytes_per_second(s.pacing_bps);
    t.ack_frequency_config(s.ack_freq.as_ref().map(|a| {
        let mut c = AckFrequencyConfig::default();
        c.ack_eliciting_threshold(VarInt::from_u32(a.threshold));
        c.max_ack_delay(a.max_ack_delay_ms.map(|m| Duration::from_millis(m as u64)));
        c.reordering_threshold(VarInt::from_u32(a.reordering));
        c
    }));
    t.packet_threshold(s.packet_threshold.max(3));
    t.time_threshold(1.0 + s.time_threshold_x8 as f32 / 8.0);
    t.keep_alive_interval(s.keep_alive_ms.map(|m| Duration::from_millis(m as u64)));
    t.max_idle_timeout(s.idle_ms.map(|m| IdleTimeout::from(VarInt::from_u32(m))));
    t.datagram_receive_buffer_size(s.dgram_recv.map(|x| x as usize));
    t.datagram_send_buffer_size(s.dgram_send as usize);
    t.send_fairness(s.send_fairness);
    t.initial_rtt(Duration::from_millis(s.initial_rtt_ms.max(1) as u64));
    t.crypto_buffer_size(s.crypto_buffer as usize);
    t.persistent_congestion_threshold(s.persistent_congestion_threshold.max(1) as u32);
    t
}

pub fn build_ep(s: &EpSpec, seed: u64) -> EndpointConfig {
    let mut c = EndpointConfig::new(Arc::new(SimHmac(crate::core::mix(seed, 0xe9))));
    let mut rs = [0u8; 32];
    for i in 0..4 {
        rs[i * 8..i * 8 + 8].copy_from_slice(&crate::core::mix(seed, 100 + i as u64).to_le_bytes());
    }
    c.rng_seed(Some(rs));
    let len = s.cid_len as usize;
    let lifetime = s.cid_lifetime_ms.map(|m| Duration::from_millis(m as u64));
    match s.cid_kind {
        CidKind::Seeded => {
            let st = crate::core::mix(seed, 0xc1d0);
            c.cid_generator(Arc::new(move || Box::new(SeededCid { len, lifetime, state: st })));
        }
        CidKind::Random => {
            c.cid_generator(Arc::new(move || {
                let mut g = RandomConnectionIdGenerator::new(len);
                if let Some(l) = lifetime {
                    g.set_lifetime(l);
                }
                Box::new(g)
            }));
        }
        CidKind::Hashed => {
            let k = crate::core::mix(seed, 0x4a5);
            c.cid_generator(Arc::new(move || {
                let mut g = HashedConnectionIdGenerator::from_key(k);
                if let Some(l) = lifetime {
                    g.set_lifetime(l);
                }
                Box::new(g)
            }));
        }
    }
    c.grease_quic_bit(s.grease);
    c.min_reset_interval(Duration::from_millis(s.min_reset_interval_ms as u64));
    c.max_udp_payload_size(s.max_udp_payload.clamp(1200, 65527)).unwrap();
    c
}
