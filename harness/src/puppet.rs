//! A hand-written QUIC peer ("puppet") speaking SimCrypto, used as the hostile-but-authenticated
//! peer of an unmodified quinn endpoint (C03, C06). It shares no code with quinn's connection
//! logic: packets are built and parsed with the independent codec in `wire.rs`, keys come from
//! the SimCrypto derivation functions. It completes the 4-message SimCrypto handshake in either
//! role, tracks the limits the victim puts on the wire, acknowledges what it receives (or not),
//! and sends whatever frames the check asks for, in any packet number space.

use crate::simcrypto::{conn_key, level_key, session_key};
use crate::wire::{self, BuildPkt, Frame, PktType};
use quinn_proto::Side;
use serde::{Deserialize, Serialize};
use std::collections::{BTreeMap, BTreeSet};
use std::net::SocketAddr;

pub const VERSION: u32 = 1;

#[derive(Clone, Debug, Serialize, Deserialize, PartialEq)]
pub struct PuppetTp {
    pub max_data: u64,
    pub msd_bidi_local: u64,
    pub msd_bidi_remote: u64,
    pub msd_uni: u64,
    pub max_streams_bidi: u64,
    pub max_streams_uni: u64,
    pub acid_limit: u64,
    pub idle_ms: u64,
    pub max_udp: u64,
    pub dgram: Option<u64>,
    pub min_ack_delay_us: Option<u64>,
    pub max_ack_delay_ms: Option<u64>,
    pub ack_delay_exponent: Option<u64>,
    pub disable_migration: bool,
    /// raw bytes appended after the well-formed parameters
    pub extra_raw: Vec<u8>,
    /// replaces everything (CID parameters included) when set
    pub replace_raw: Option<Vec<u8>>,
}

impl Default for PuppetTp {
    fn default() -> Self {
        Self {
            max_data: 1 << 24,
            msd_bidi_local: 1 << 20,
            msd_bidi_remote: 1 << 20,
            msd_uni: 1 << 20,
            max_streams_bidi: 64,
            max_streams_uni: 64,
            acid_limit: 4,
            idle_ms: 0,
            max_udp: 1472,
            dgram: Some(65535),
            min_ack_delay_us: None,
            max_ack_delay_ms: None,
            ack_delay_exponent: None,
            disable_migration: false,
            extra_raw: vec![],
            replace_raw: None,
        }
    }
}

pub fn tp_put(out: &mut Vec<u8>, id: u64, val: &[u8]) {
    wire::put_var(out, id);
    wire::put_var(out, val.len() as u64);
    out.extend_from_slice(val);
}
pub fn tp_put_int(out: &mut Vec<u8>, id: u64, v: u64) {
    let mut b = Vec::new();
    wire::put_var(&mut b, v);
    tp_put(out, id, &b);
}

/// Transport parameters of the victim as the puppet's own decoder sees them (id -> raw value)
#[derive(Clone, Debug, Default)]
pub struct PeerTp {
    pub raw: BTreeMap<u64, Vec<u8>>,
}
impl PeerTp {
    pub fn parse(b: &[u8]) -> Option<PeerTp> {
        let mut r = wire::Rd::new(b);
        let mut raw = BTreeMap::new();
        while r.remaining() > 0 {
            let id = r.var().ok()?;
            let v = r.var_bytes().ok()?;
            raw.insert(id, v.to_vec());
        }
        Some(PeerTp { raw })
    }
    pub fn int(&self, id: u64) -> Option<u64> {
        let v = self.raw.get(&id)?;
        wire::Rd::new(v).var().ok()
    }
    pub fn int_or(&self, id: u64, d: u64) -> u64 {
        self.int(id).unwrap_or(d)
    }
}

#[derive(Clone, Debug, Default)]
pub struct RxSpace {
    pub pns: BTreeSet<u64>,
    pub largest: Option<u64>,
    pub ack_pending: bool,
    pub crypto: BTreeMap<u64, Vec<u8>>,
    pub crypto_read: u64,
    pub crypto_buf: Vec<u8>,
}

#[derive(Clone, Debug, PartialEq, Eq)]
pub struct CloseInfo {
    pub app: bool,
    pub code: u64,
    pub frame_type: u64,
    pub reason: Vec<u8>,
    pub space: usize,
    pub t: u64,
}

/// The limits the victim has put on the wire for data the puppet sends
#[derive(Clone, Debug, Default)]
pub struct VictimLimits {
    pub max_data: u64,
    /// explicit MAX_STREAM_DATA values seen, by stream id
    pub msd: BTreeMap<u64, u64>,
    /// cumulative stream limits [bidi, uni] for streams the puppet initiates
    pub max_streams: [u64; 2],
    /// history of MAX_DATA values (time, value) and MAX_STREAM_DATA (time, id, value) for C06's credit oracle
    pub max_data_log: Vec<(u64, u64)>,
    pub msd_log: Vec<(u64, u64, u64)>,
    pub max_streams_log: Vec<(u64, bool, u64)>,
}

pub struct Puppet {
    pub side: Side,
    pub addr: SocketAddr,
    pub peer: SocketAddr,
    pub tp: PuppetTp,
    pub odcid: Vec<u8>,
    pub scid: Vec<u8>,
    pub dcid: Vec<u8>,
    pub conn: u64,
    pub nonce: Option<u64>,
    pub next_pn: [u64; 3],
    pub rx: [RxSpace; 3],
    /// handshake progress: client 0 idle, 1 CH sent, 2 SH seen, 3 EE seen + FIN sent; server 0 idle, 1 CH seen + flight sent, 3 FIN seen
    pub hs: u8,
    pub peer_tp_raw: Option<Vec<u8>>,
    pub peer_tp: Option<PeerTp>,
    pub lim: VictimLimits,
    pub victim_cids: BTreeMap<u64, (Vec<u8>, [u8; 16])>,
    pub closed: Option<CloseInfo>,
    /// every CONNECTION_CLOSE seen (the first one is also in `closed`); bounded
    pub closes: Vec<CloseInfo>,
    pub handshake_done: bool,
    pub largest_acked: [Option<u64>; 3],
    pub rx_frames: Vec<(u64, usize, Frame)>,
    pub rx_frame_count: u64,
    pub rx_datagrams: u64,
    pub rx_bytes: u64,
    pub tx_datagrams: u64,
    pub tx_bytes: u64,
    pub undecodable: u64,
    pub unauthenticated: u64,
    pub got_retry: bool,
    pub got_vn: bool,
    pub token: Vec<u8>,
    /// reset tokens seen in tails are not interpreted; a stateless reset shows up as undecodable short packet
    pub log_frames: bool,
    pub server_nonce: u64,
    /// keep ACKing what arrives (a polite hostile peer); when false only the handshake is acknowledged
    pub ack_everything: bool,
    pub first_flight_seen: bool,
    /// further connection IDs the puppet issued through NEW_CONNECTION_ID frames
    pub my_cids: Vec<Vec<u8>>,
    /// 1-RTT key generation in use (follows key updates initiated by the victim)
    pub gen: u64,
}

fn space_ty(space: usize, side: Side) -> PktType {
    let _ = side;
    match space {
        0 => PktType::Initial,
        1 => PktType::Handshake,
        _ => PktType::Short,
    }
}

impl Puppet {
    pub fn new_client(addr: SocketAddr, peer: SocketAddr, seed: u64, cid_len: usize, odcid_len: usize, tp: PuppetTp) -> Self {
        let mut odcid = Vec::new();
        let mut i = 0;
        while odcid.len() < odcid_len.clamp(8, 20) {
            odcid.extend_from_slice(&crate::core::mix(seed ^ 0x9bb7_e7a1, i).to_le_bytes());
            i += 1;
        }
        odcid.truncate(odcid_len.clamp(8, 20));
        let mut scid = Vec::new();
        let mut i = 0;
        while scid.len() < cid_len.min(20) {
            scid.extend_from_slice(&crate::core::mix(seed ^ 0x5c1d, i).to_le_bytes());
            i += 1;
        }
        scid.truncate(cid_len.min(20));
        let conn = conn_key(&quinn_proto::ConnectionId::new(&odcid));
        Self::mk(Side::Client, addr, peer, tp, odcid.clone(), scid, odcid, conn, seed)
    }

    pub fn new_server(addr: SocketAddr, peer: SocketAddr, seed: u64, cid_len: usize, tp: PuppetTp) -> Self {
        let mut scid = Vec::new();
        let mut i = 0;
        while scid.len() < cid_len.min(20) {
            scid.extend_from_slice(&crate::core::mix(seed ^ 0x5c1d, i).to_le_bytes());
            i += 1;
        }
        scid.truncate(cid_len.min(20));
        Self::mk(Side::Server, addr, peer, tp, vec![], scid, vec![], 0, seed)
    }

    #[allow(clippy::too_many_arguments)]
    fn mk(side: Side, addr: SocketAddr, peer: SocketAddr, tp: PuppetTp, odcid: Vec<u8>, scid: Vec<u8>, dcid: Vec<u8>, conn: u64, seed: u64) -> Self {
        Self {
            side,
            addr,
            peer,
            tp,
            odcid,
            scid,
            dcid,
            conn,
            nonce: None,
            next_pn: [0; 3],
            rx: Default::default(),
            hs: 0,
            peer_tp_raw: None,
            peer_tp: None,
            lim: VictimLimits::default(),
            victim_cids: BTreeMap::new(),
            closed: None,
            closes: vec![],
            handshake_done: false,
            largest_acked: [None; 3],
            rx_frames: vec![],
            rx_frame_count: 0,
            rx_datagrams: 0,
            rx_bytes: 0,
            tx_datagrams: 0,
            tx_bytes: 0,
            undecodable: 0,
            unauthenticated: 0,
            got_retry: false,
            got_vn: false,
            token: vec![],
            log_frames: true,
            server_nonce: crate::core::mix(seed, 0x4e0) | 1,
            ack_everything: true,
            first_flight_seen: false,
            my_cids: vec![],
            gen: 0,
        }
    }

    /// Encoded transport parameters this puppet presents
    pub fn tp_bytes(&self) -> Vec<u8> {
        if let Some(r) = &self.tp.replace_raw {
            return r.clone();
        }
        let t = &self.tp;
        let mut v = Vec::new();
        if self.side.is_server() {
            tp_put(&mut v, 0x00, &self.odcid);
        }
        if t.idle_ms != 0 {
            tp_put_int(&mut v, 0x01, t.idle_ms);
        }
        tp_put_int(&mut v, 0x03, t.max_udp);
        tp_put_int(&mut v, 0x04, t.max_data);
        tp_put_int(&mut v, 0x05, t.msd_bidi_local);
        tp_put_int(&mut v, 0x06, t.msd_bidi_remote);
        tp_put_int(&mut v, 0x07, t.msd_uni);
        tp_put_int(&mut v, 0x08, t.max_streams_bidi);
        tp_put_int(&mut v, 0x09, t.max_streams_uni);
        if let Some(x) = t.ack_delay_exponent {
            tp_put_int(&mut v, 0x0a, x);
        }
        if let Some(x) = t.max_ack_delay_ms {
            tp_put_int(&mut v, 0x0b, x);
        }
        if t.disable_migration {
            tp_put(&mut v, 0x0c, &[]);
        }
        tp_put_int(&mut v, 0x0e, t.acid_limit);
        tp_put(&mut v, 0x0f, &self.scid);
        if let Some(d) = t.dgram {
            tp_put_int(&mut v, 0x20, d);
        }
        if let Some(d) = t.min_ack_delay_us {
            tp_put_int(&mut v, 0xff04de1b, d);
        }
        v.extend_from_slice(&t.extra_raw);
        v
    }

    fn session(&self) -> u64 {
        session_key(self.conn, self.nonce.unwrap_or(0))
    }

    /// Sending key for a space (generation 0)
    pub fn tx_key(&self, space: usize) -> u64 {
        match space {
            0 => level_key(self.conn, 0, self.side),
            1 => level_key(self.session(), 1, self.side),
            _ => level_key(self.session(), 2 + self.gen, self.side),
        }
    }

    pub fn keys_available(&self, space: usize) -> bool {
        match space {
            0 => self.side.is_client() || self.hs >= 1,
            _ => self.nonce.is_some(),
        }
    }

    fn msg(tag: u8, body: &[u8]) -> Vec<u8> {
        let mut v = vec![tag];
        v.extend_from_slice(&(body.len() as u32).to_be_bytes()[1..]);
        v.extend_from_slice(body);
        v
    }

    /// Client: the first Initial datagram carrying the ClientHello
    pub fn start(&mut self) -> Vec<u8> {
        assert!(self.side.is_client());
        let mut body = vec![0u8; 9];
        body.extend_from_slice(&self.tp_bytes());
        let ch = Self::msg(1, &body);
        self.hs = 1;
        let p = self.packet(0, &[Frame::Crypto { offset: 0, data: ch }], 1200);
        p
    }

    /// Build one packet in `space` with the next packet number
    pub fn packet(&mut self, space: usize, frames: &[Frame], min_len: usize) -> Vec<u8> {
        let payload = wire::encode_frames(frames);
        self.packet_raw(space, &payload, min_len, None, 0)
    }

    /// Build one packet from a raw payload; `pn` overrides the packet number (not consumed)
    pub fn packet_raw(&mut self, space: usize, payload: &[u8], min_len: usize, pn: Option<u64>, first_byte_xor: u8) -> Vec<u8> {
        let n = match pn {
            Some(n) => n,
            None => {
                let n = self.next_pn[space];
                self.next_pn[space] += 1;
                n
            }
        };
        let mut out = Vec::new();
        let b = BuildPkt {
            ty: space_ty(space, self.side),
            version: VERSION,
            dcid: &self.dcid,
            scid: &self.scid,
            token: if space == 0 && self.side.is_client() { &self.token } else { &[] },
            pn: n,
            pn_len: 4,
            key_phase: space == 2 && self.gen & 1 == 1,
            payload,
            key: self.tx_key(space),
            min_len,
            first_byte_xor,
        };
        wire::build_packet(&b, &mut out);
        out
    }

    pub fn ack_frame(&self, space: usize) -> Option<Frame> {
        let r = &self.rx[space];
        let largest = r.largest?;
        // ranges descending, at most 32
        let mut ranges: Vec<(u64, u64)> = Vec::new();
        for &pn in r.pns.iter().rev() {
            match ranges.last_mut() {
                Some((lo, _)) if *lo == pn + 1 => *lo = pn,
                _ => {
                    if ranges.len() == 32 {
                        break;
                    }
                    ranges.push((pn, pn));
                }
            }
        }
        Some(Frame::Ack { largest, delay: 0, ranges, ecn: None })
    }

    /// Process one datagram from the victim; returns datagrams the puppet sends in response
    /// (handshake progress and acknowledgements)
    pub fn on_datagram(&mut self, t: u64, d: &[u8]) -> Vec<Vec<u8>> {
        self.rx_datagrams += 1;
        self.rx_bytes += d.len() as u64;
        // short header packets may carry any connection ID the puppet has issued
        let mut cid_len = self.scid.len();
        if !d.is_empty() && d[0] & 0x80 == 0 {
            let mut best: Option<usize> = None;
            for c in std::iter::once(&self.scid).chain(self.my_cids.iter()) {
                if d.len() > c.len() && d[1..1 + c.len()] == c[..] && best.is_none_or(|b| c.len() > b) {
                    best = Some(c.len());
                }
            }
            if let Some(b) = best {
                cid_len = b;
            }
        }
        let pkts = wire::decode_datagram(d, cid_len);
        for p in pkts {
            let Ok(p) = p else {
                self.undecodable += 1;
                break;
            };
            match p.ty {
                PktType::Retry => {
                    self.got_retry = true;
                    continue;
                }
                PktType::VersionNegotiation => {
                    self.got_vn = true;
                    continue;
                }
                _ => {}
            }
            let Some(space) = p.ty.space() else { continue };
            if p.ty == PktType::Short && p.dcid != self.scid && !self.my_cids.contains(&p.dcid) {
                self.undecodable += 1;
                continue;
            }

            if self.side.is_server() && self.hs == 0 && p.ty == PktType::Initial {
                self.odcid = p.dcid.clone();
                self.dcid = p.scid.clone();
                self.conn = conn_key(&quinn_proto::ConnectionId::new(&self.odcid));
            }
            if self.side.is_client() && !self.first_flight_seen && p.ty != PktType::Short {
                // adopt the server's chosen CID
                self.dcid = p.scid.clone();
                self.first_flight_seen = true;
            }
            let pn = wire::expand_pn(self.rx[space].largest, p.pn_trunc, p.pn_len);
            // authenticate like a real peer would: stateless resets and stray datagrams must not be
            // mistaken for packets of the connection (nor for a key update)
            if self.conn != 0 && (space == 0 || self.nonce.is_some()) {
                let header = &d[p.start..p.start + p.header_len];
                let peer = !self.side;
                let key_for = |gen: u64| match space {
                    0 => level_key(self.conn, 0, peer),
                    1 => level_key(self.session(), 1, peer),
                    _ => level_key(self.session(), 2 + gen, peer),
                };
                let ok_now = crate::simcrypto::packet_tag(key_for(self.gen), pn, header, &p.payload)[..] == p.tag[..];
                if !ok_now {
                    let ok_next = space == 2 && crate::simcrypto::packet_tag(key_for(self.gen + 1), pn, header, &p.payload)[..] == p.tag[..];
                    if ok_next {
                        // the victim updated its keys: follow
                        self.gen += 1;
                    } else {
                        self.unauthenticated += 1;
                        continue;
                    }
                }
            }
            let Ok(frames) = wire::decode_frames(&p.payload) else {
                self.undecodable += 1;
                continue;
            };
            let r = &mut self.rx[space];
            r.pns.insert(pn);
            if r.pns.len() > 4096 {
                let first = *r.pns.iter().next().unwrap();
                r.pns.remove(&first);
            }
            r.largest = Some(r.largest.map_or(pn, |l| l.max(pn)));
            if frames.iter().any(|f| f.is_ack_eliciting()) {
                r.ack_pending = true;
            }
            for f in frames {
                self.on_frame(t, space, f);
            }
        }
        self.respond()
    }

    fn on_frame(&mut self, t: u64, space: usize, f: Frame) {
        self.rx_frame_count += 1;
        match &f {
            Frame::Crypto { offset, data } => {
                let r = &mut self.rx[space];
                if *offset + data.len() as u64 > r.crypto_read {
                    r.crypto.insert(*offset, data.clone());
                }
                // reassemble
                loop {
                    let mut progressed = false;
                    let keys: Vec<u64> = r.crypto.keys().copied().collect();
                    for k in keys {
                        if k <= r.crypto_read {
                            let d = r.crypto.remove(&k).unwrap();
                            let end = k + d.len() as u64;
                            if end > r.crypto_read {
                                let skip = (r.crypto_read - k) as usize;
                                r.crypto_buf.extend_from_slice(&d[skip..]);
                                r.crypto_read = end;
                                progressed = true;
                            }
                        }
                    }
                    if !progressed {
                        break;
                    }
                }
                self.handshake_messages(space);
            }
            Frame::Ack { largest, .. } => {
                self.largest_acked[space] = Some(self.largest_acked[space].map_or(*largest, |l| l.max(*largest)));
            }
            Frame::MaxData(v) => {
                self.lim.max_data = self.lim.max_data.max(*v);
                self.lim.max_data_log.push((t, *v));
            }
            Frame::MaxStreamData { id, max } => {
                let e = self.lim.msd.entry(*id).or_insert(0);
                *e = (*e).max(*max);
                self.lim.msd_log.push((t, *id, *max));
            }
            Frame::MaxStreams { bidi, max } => {
                let i = if *bidi { 0 } else { 1 };
                self.lim.max_streams[i] = self.lim.max_streams[i].max(*max);
                self.lim.max_streams_log.push((t, *bidi, *max));
            }
            Frame::NewConnectionId { seq, cid, reset_token, .. } => {
                self.victim_cids.insert(*seq, (cid.clone(), *reset_token));
            }
            Frame::ConnectionClose { code, frame_type, reason } => {
                if self.closes.len() < 32 {
                    self.closes.push(CloseInfo { app: false, code: *code, frame_type: *frame_type, reason: reason.clone(), space, t });
                }
                if self.closed.is_none() {
                    self.closed = Some(CloseInfo { app: false, code: *code, frame_type: *frame_type, reason: reason.clone(), space, t });
                }
            }
            Frame::ApplicationClose { code, reason } => {
                if self.closes.len() < 32 {
                    self.closes.push(CloseInfo { app: true, code: *code, frame_type: 0, reason: reason.clone(), space, t });
                }
                if self.closed.is_none() {
                    self.closed = Some(CloseInfo { app: true, code: *code, frame_type: 0, reason: reason.clone(), space, t });
                }
            }
            Frame::HandshakeDone => self.handshake_done = true,
            _ => {}
        }
        if self.log_frames && self.rx_frames.len() < 20_000 {
            self.rx_frames.push((t, space, f));
        }
    }

    fn handshake_messages(&mut self, space: usize) {
        loop {
            let buf = &self.rx[space].crypto_buf;
            if buf.len() < 4 {
                return;
            }
            let len = u32::from_be_bytes([0, buf[1], buf[2], buf[3]]) as usize;
            if buf.len() < 4 + len {
                return;
            }
            let tag = buf[0];
            let body: Vec<u8> = buf[4..4 + len].to_vec();
            self.rx[space].crypto_buf.drain(..4 + len);
            match (self.side, tag, space) {
                (Side::Client, 2, 0) if body.len() >= 8 && self.hs == 1 => {
                    self.nonce = Some(u64::from_be_bytes(body[..8].try_into().unwrap()));
                    self.hs = 2;
                }
                (Side::Client, 3, 1) if body.len() >= 3 && self.hs == 2 => {
                    let tl = u16::from_be_bytes([body[1], body[2]]) as usize;
                    if body.len() >= 3 + tl {
                        self.set_peer_tp(body[3..3 + tl].to_vec());
                        self.hs = 3; // FIN is sent by respond()
                    }
                }
                (Side::Server, 1, 0) if body.len() >= 9 && self.hs == 0 => {
                    self.set_peer_tp(body[9..].to_vec());
                    self.nonce = Some(self.server_nonce);
                    self.hs = 1;
                }
                (Side::Server, 4, 1) if self.hs == 2 => {
                    self.hs = 3;
                }
                _ => {}
            }
        }
    }

    fn set_peer_tp(&mut self, raw: Vec<u8>) {
        let tp = PeerTp::parse(&raw);
        if let Some(tp) = &tp {
            self.lim.max_data = tp.int_or(0x04, 0);
            let (b, u) = (tp.int_or(0x08, 0), tp.int_or(0x09, 0));
            self.lim.max_streams = [b, u];
        }
        self.peer_tp_raw = Some(raw);
        self.peer_tp = tp;
    }

    /// Initial flow-control limit for stream `id` from the victim's transport parameters (puppet as sender)
    pub fn initial_stream_limit(&self, id: u64) -> u64 {
        let tp = self.peer_tp.as_ref();
        let mine = wire::sid_server_initiated(id) == self.side.is_server();
        if wire::sid_uni(id) {
            if mine {
                tp.map_or(0, |t| t.int_or(0x07, 0))
            } else {
                0
            }
        } else if mine {
            // from the victim's point of view the stream is remotely initiated
            tp.map_or(0, |t| t.int_or(0x06, 0))
        } else {
            tp.map_or(0, |t| t.int_or(0x05, 0))
        }
    }

    /// Flow-control limit the victim currently grants for stream `id` (puppet as sender)
    pub fn stream_limit(&self, id: u64) -> u64 {
        self.lim.msd.get(&id).copied().unwrap_or(0).max(self.initial_stream_limit(id))
    }

    /// Handshake progress + acknowledgements
    fn respond(&mut self) -> Vec<Vec<u8>> {
        let mut out = Vec::new();
        if self.closed.is_some() {
            return out;
        }
        match (self.side, self.hs) {
            (Side::Client, 3) => {
                // Initial ACK + Handshake [ACK, CRYPTO(FIN)], padded to 1200
                let mut d = Vec::new();
                if let Some(a) = self.ack_frame(0) {
                    d.extend(self.packet(0, &[a], 0));
                    self.rx[0].ack_pending = false;
                }
                let mut fr = vec![];
                if let Some(a) = self.ack_frame(1) {
                    fr.push(a);
                    self.rx[1].ack_pending = false;
                }
                fr.push(Frame::Crypto { offset: 0, data: Self::msg(4, b"fin") });
                let need = 1200usize.saturating_sub(d.len());
                d.extend(self.packet(1, &fr, need));
                out.push(d);
                self.hs = 4;
            }
            (Side::Server, 1) => {
                // Initial [ACK, CRYPTO(SH)] + Handshake [CRYPTO(EE)], padded to 1200
                let mut fr = vec![];
                if let Some(a) = self.ack_frame(0) {
                    fr.push(a);
                    self.rx[0].ack_pending = false;
                }
                fr.push(Frame::Crypto { offset: 0, data: Self::msg(2, &self.server_nonce.to_be_bytes()) });
                let mut d = self.packet(0, &fr, 0);
                let tp = self.tp_bytes();
                let mut body = vec![0u8];
                body.extend_from_slice(&(tp.len() as u16).to_be_bytes());
                body.extend_from_slice(&tp);
                let ee = Self::msg(3, &body);
                let need = 1200usize.saturating_sub(d.len());
                d.extend(self.packet(1, &[Frame::Crypto { offset: 0, data: ee }], need));
                out.push(d);
                self.hs = 2;
            }
            (Side::Server, 3) => {
                let mut fr = vec![];
                if let Some(a) = self.ack_frame(1) {
                    fr.push(a);
                    self.rx[1].ack_pending = false;
                }
                let mut d = self.packet(1, &fr, 0);
                d.extend(self.packet(2, &[Frame::HandshakeDone], 0));
                out.push(d);
                self.hs = 4;
            }
            _ => {}
        }
        // acknowledgements
        let mut d = Vec::new();
        for space in 0..3 {
            if !self.rx[space].ack_pending || !self.keys_available(space) {
                continue;
            }
            if space == 2 && (!self.ack_everything || self.hs < 3) {
                continue;
            }
            if space == 0 && self.side.is_client() && self.hs >= 4 {
                self.rx[0].ack_pending = false;
                continue; // Initial keys are gone at the server
            }
            if let Some(a) = self.ack_frame(space) {
                let pad = if space == 0 && self.side.is_client() { 1200 } else { 0 };
                if space == 2 {
                    // short header packets go last in a datagram
                    d.extend(self.packet(space, &[a], 0));
                } else {
                    let mut p = self.packet(space, &[a], pad);
                    p.extend(d);
                    d = p;
                }
                self.rx[space].ack_pending = false;
            }
        }
        if !d.is_empty() {
            out.push(d);
        }
        for o in &out {
            self.tx_datagrams += 1;
            self.tx_bytes += o.len() as u64;
        }
        out
    }

    /// Is the handshake complete from the puppet's point of view (1-RTT keys usable, victim's
    /// parameters known)?
    pub fn established(&self) -> bool {
        self.hs >= 4 || (self.side.is_client() && self.hs >= 3)
    }
}
