//! PuppetWorld: a `World` with one quinn endpoint under test (the victim) and a harness-written
//! peer (`Puppet`) living at a sink address. Used by C03 and C06.

use crate::puppet::{Puppet, PuppetTp};
use crate::simnet::{addr_v6, ConnLoad, NetSpec, World, CLIENT_EP, SERVER_EP};
use crate::spec::SideLoad;
use quinn_proto::Side;
use std::net::SocketAddr;

pub struct PW {
    pub w: World,
    pub p: Puppet,
    /// index of the victim connection in `w.conns`, once it exists
    pub vk: Option<usize>,
    pub latency: u64,
    pub victim_addr: SocketAddr,
    pub injected_bytes: u64,
    pub injected_dgrams: u64,
}

pub fn puppet_addr() -> SocketAddr {
    addr_v6(0x77, 7777)
}

impl PW {
    /// `victim_side`: the role of the quinn endpoint under test
    pub fn new(spec: NetSpec, victim_side: Side, seed: u64, puppet_cid_len: usize, odcid_len: usize, tp: PuppetTp) -> Self {
        let mut w = World::new(spec);
        let pa = puppet_addr();
        w.sinks.insert(pa, vec![]);
        let (p, victim_addr) = if victim_side.is_server() {
            let va = w.eps[SERVER_EP].addrs[0];
            (Puppet::new_client(pa, va, seed, puppet_cid_len, odcid_len, tp), va)
        } else {
            let va = w.eps[CLIENT_EP].addrs[0];
            (Puppet::new_server(pa, va, seed, puppet_cid_len, tp), va)
        };
        Self { w, p, vk: None, latency: 5_000, victim_addr, injected_bytes: 0, injected_dgrams: 0 }
    }

    /// Begin the connection attempt (either the puppet's ClientHello or the victim's connect())
    pub fn start(&mut self) {
        if self.p.side.is_client() {
            let d = self.p.start();
            self.send(d);
        } else {
            let load = ConnLoad { client: SideLoad::default(), server: SideLoad::default() };
            let pa = self.p.addr;
            if let Ok(k) = self.w.connect_to(CLIENT_EP, load, pa) {
                self.w.conns[k].app.manual = true;
                self.vk = Some(k);
            }
        }
    }

    /// Put a datagram from the puppet on the link
    pub fn send(&mut self, d: Vec<u8>) {
        self.injected_bytes += d.len() as u64;
        self.injected_dgrams += 1;
        let at = self.w.now + self.latency;
        let (to, from) = (self.victim_addr, self.p.addr);
        self.w.inject(at, to, from, d);
    }

    /// Send from another source address (spoofed / migrated puppet)
    pub fn send_from(&mut self, from: SocketAddr, d: Vec<u8>) {
        self.injected_bytes += d.len() as u64;
        self.injected_dgrams += 1;
        let at = self.w.now + self.latency;
        let to = self.victim_addr;
        self.w.inject(at, to, from, d);
    }

    fn find_victim(&mut self) {
        if self.vk.is_none() {
            let pa = self.p.addr;
            self.vk = self.w.conns.iter().position(|c| c.c.remote_address() == pa);
        }
    }

    fn drain_sink(&mut self) -> bool {
        let pa = self.p.addr;
        let got: Vec<(u64, SocketAddr, Vec<u8>)> = std::mem::take(self.w.sinks.get_mut(&pa).unwrap());
        let any = !got.is_empty();
        for (t, _from, bytes) in got {
            let out = self.p.on_datagram(t, &bytes);
            for d in out {
                self.send(d);
            }
        }
        any
    }

    /// Run until virtual time `until` (absolute µs), serving the puppet whenever something arrives.
    /// Returns false if the world's step bound was hit.
    pub fn pump(&mut self, until: u64) -> bool {
        let pa = self.p.addr;
        loop {
            let ok = self.w.run(until, |w| !w.sinks[&pa].is_empty());
            if !ok {
                return false;
            }
            self.find_victim();
            let any = self.drain_sink();
            if !self.w.viol.is_empty() {
                return true;
            }
            if !any {
                // run() returned for another reason: time reached or nothing left to do
                return true;
            }
        }
    }

    /// Run until nothing is in flight in either direction (timers may remain armed), at most
    /// `max_us` of virtual time. Returns false on step bound.
    pub fn sync(&mut self, max_us: u64) -> bool {
        let deadline = self.w.now + max_us;
        let pa = self.p.addr;
        loop {
            let ok = self.w.run(deadline, |w| !w.sinks[&pa].is_empty() || w.queue.is_empty());
            if !ok {
                return false;
            }
            self.find_victim();
            let any = self.drain_sink();
            if !self.w.viol.is_empty() {
                return true;
            }
            if self.w.now >= deadline {
                return true;
            }
            if !any && self.w.queue.is_empty() {
                // give the victim one more chance to emit at this instant (acks are delayed by
                // timers, which is fine: they are not needed for the oracles)
                return true;
            }
        }
    }

    /// Drive the victim after the check touched its connection directly
    pub fn touch(&mut self) {
        if let Some(k) = self.vk {
            self.w.conns[k].dirty = true;
        }
    }

    pub fn victim(&mut self) -> Option<&mut quinn_proto::Connection> {
        let k = self.vk?;
        Some(&mut self.w.conns[k].c)
    }
}
