//! E5 `asyncsim` — the real `quinn` crate on a deterministic single-threaded harness runtime.
//!
//! * [`SimRuntime`] implements `quinn::Runtime`: `spawn` registers a task with the executor,
//!   `new_timer` creates a virtual-time timer, `now` returns `epoch + virtual offset`.
//! * [`SimSocket`] / `SimSender` implement `AsyncUdpSocket` / `UdpSender` over an in-memory network
//!   with per-datagram latency and a generated fault stream (deliver / drop / duplicate / delay),
//!   GSO splitting on send, GRO-like coalescing (`stride`) and batching on receive, and optional
//!   transient "socket not writable" back-pressure.
//! * [`Exec`] is the executor: wakers put task ids into a ready set; at every step a byte of the
//!   generated schedule picks which ready task is polled (round-robin once the schedule is used
//!   up); when nothing is ready virtual time jumps to the next timer deadline / datagram arrival;
//!   when nothing is ready and nothing is scheduled the world is quiescent.
//!
//! Everything a world owns hangs off one `Arc<SimInner>`; there is no global state, no wall-clock
//! dependence (the epoch `Instant` is only a base for differences) and no RNG, so a world is a
//! pure function of its inputs. Wakers are `Send + Sync` (quinn requires it) but all of a world
//! runs on the thread that created it.

use quinn::udp::{EcnCodepoint, RecvMeta, Transmit};
use quinn::{AsyncTimer, AsyncUdpSocket, Runtime, UdpSender};
use serde::{Deserialize, Serialize};
use std::cell::RefCell;
use std::collections::{BTreeMap, BTreeSet, VecDeque};
use std::fmt;
use std::future::Future;
use std::io::{self, IoSliceMut};
use std::net::SocketAddr;
use std::pin::Pin;
use std::rc::Rc;
use std::sync::{Arc, Mutex};
use std::task::{Context, Poll, Wake, Waker};
use std::time::{Duration, Instant};

pub type TaskId = usize;
pub type LocalFut = Pin<Box<dyn Future<Output = ()>>>;

#[derive(Clone, Copy, Debug, PartialEq, Eq, Serialize, Deserialize)]
pub enum Fault {
    Deliver,
    Drop,
    Dup,
    /// extra delay in microseconds (reorders)
    Delay(u32),
}

#[derive(Clone, Debug, Serialize, Deserialize)]
pub struct NetSpec {
    /// one-way latency in microseconds
    pub latency_us: u32,
    /// consumed one per datagram put on the wire; after the end the link is clean
    pub faults: Vec<Fault>,
    /// `UdpSender::max_transmit_segments` (GSO)
    pub max_tx_segments: u8,
    /// `AsyncUdpSocket::max_receive_segments` (GRO coalescing of same-size datagrams)
    pub max_rx_segments: u8,
    /// datagram buffers filled per `poll_recv`
    pub recv_batch: u8,
    /// consumed one per `poll_send`; `true` = report "not writable" once (Pending, woken 20 µs later)
    pub send_block: Vec<bool>,
    /// virtual nanoseconds that pass per `Runtime::now()` call
    pub tick_ns: u32,
    /// `AsyncUdpSocket::may_fragment` (false enables MTU discovery)
    pub may_fragment: bool,
}

#[derive(Clone, Copy, Debug, PartialEq, Eq)]
pub enum TaskKind {
    /// spawned by quinn through `Runtime::spawn` (connection and endpoint drivers)
    Driver,
    App,
}

#[derive(Clone, Copy, Debug, PartialEq, Eq)]
enum Life {
    Alive,
    Dead,
}

struct Dgram {
    src: SocketAddr,
    dst: SocketAddr,
    ecn: Option<EcnCodepoint>,
    data: Vec<u8>,
}

#[derive(Default)]
struct SockSt {
    queue: VecDeque<Dgram>,
    waker: Option<Waker>,
    /// whether the last `poll_recv` returned Pending (i.e. the socket owes a wakeup)
    armed: bool,
}

#[derive(Debug, Default, Clone)]
pub struct NetStats {
    pub sent: u64,
    pub delivered: u64,
    pub dropped: u64,
    pub duplicated: u64,
    pub delayed: u64,
    pub gso_batches: u64,
    pub gro_coalesced: u64,
    pub send_blocked: u64,
    pub no_route: u64,
    pub last_fault_ns: u64,
}

struct TimerEnt {
    deadline_ns: u64,
    waker: Option<Waker>,
}

pub struct St {
    pub now_ns: u64,
    tick_ns: u64,
    ready: BTreeSet<TaskId>,
    life: Vec<Life>,
    kinds: Vec<TaskKind>,
    died_at: Vec<u64>,
    spawned: Vec<(TaskId, Pin<Box<dyn Future<Output = ()> + Send>>)>,
    timers: BTreeMap<u64, TimerEnt>,
    next_timer: u64,
    // network
    spec: NetSpec,
    fault_pos: usize,
    block_pos: usize,
    socks: BTreeMap<SocketAddr, SockSt>,
    inflight: BTreeMap<(u64, u64), Dgram>,
    seq: u64,
    blocked_senders: Vec<(u64, Waker)>,
    pub net: NetStats,
    // accounting
    pub wakes: u64,
    /// wakes delivered to a task id that has completed
    pub dead_wakes: u64,
    /// ... of which more than `DEAD_GRACE_NS` after the task completed
    pub dead_wakes_late: u64,
    pub dead_wake_log: Vec<(TaskId, u64)>,
    /// wakes received after completion, per task
    pub dead_count: Vec<u32>,
    pub timers_created: u64,
    pub timer_resets: u64,
    /// human-readable log of every datagram put on the wire (only when tracing)
    pub wire_log: Option<Vec<String>>,
}

/// Describe a datagram (SimCrypto leaves packets readable)
fn describe(d: &[u8]) -> String {
    let mut s = String::new();
    for p in crate::wire::decode_datagram(d, 8) {
        match p {
            Ok(p) => {
                s += &format!("{:?}#{}[", p.ty, p.pn_trunc);
                match crate::wire::decode_frames(&p.payload) {
                    Ok(fs) => {
                        for f in fs {
                            let t = format!("{f:?}");
                            if f.kind() != "PADDING" {
                                s += &t[..t.len().min(90)];
                                s.push(' ');
                            }
                        }
                    }
                    Err(e) => s += &format!("undecodable frames {e:?}"),
                }
                s += "] ";
            }
            Err(e) => s += &format!("<{e:?}>"),
        }
    }
    s
}

pub const DEAD_GRACE_NS: u64 = 1_000_000;

pub struct SimInner {
    epoch: Instant,
    st: Mutex<St>,
}

impl fmt::Debug for SimInner {
    fn fmt(&self, f: &mut fmt::Formatter<'_>) -> fmt::Result {
        f.write_str("SimInner")
    }
}

impl SimInner {
    pub fn lock(&self) -> std::sync::MutexGuard<'_, St> {
        self.st.lock().unwrap_or_else(|e| e.into_inner())
    }
    pub fn now_ns(&self) -> u64 {
        self.lock().now_ns
    }
    fn to_ns(&self, i: Instant) -> u64 {
        i.saturating_duration_since(self.epoch).as_nanos().min(u64::MAX as u128 / 4) as u64
    }
}

struct TaskWaker {
    sim: Arc<SimInner>,
    id: TaskId,
}

impl Wake for TaskWaker {
    fn wake(self: Arc<Self>) {
        self.wake_by_ref()
    }
    fn wake_by_ref(self: &Arc<Self>) {
        let mut st = self.sim.lock();
        st.wakes += 1;
        match st.life.get(self.id) {
            Some(Life::Alive) => {
                st.ready.insert(self.id);
            }
            _ => {
                st.dead_wakes += 1;
                if st.kinds.get(self.id) == Some(&TaskKind::App) && std::env::var("QV_BT").is_ok() {
                    eprintln!("dead wake into app task {}:\n{}", self.id, std::backtrace::Backtrace::force_capture());
                }
                if let Some(c) = st.dead_count.get_mut(self.id) {
                    *c += 1;
                }
                let died = st.died_at.get(self.id).copied().unwrap_or(0);
                if st.now_ns > died + DEAD_GRACE_NS {
                    st.dead_wakes_late += 1;
                }
                let now = st.now_ns;
                if st.dead_wake_log.len() < 16 {
                    st.dead_wake_log.push((self.id, now));
                }
            }
        }
    }
}

// ---------------------------------------------------------------------------------------------
// Runtime
// ---------------------------------------------------------------------------------------------

#[derive(Debug, Clone)]
pub struct SimRuntime(pub Arc<SimInner>);

impl Runtime for SimRuntime {
    fn new_timer(&self, i: Instant) -> Pin<Box<dyn AsyncTimer>> {
        Box::pin(SimTimer::new(&self.0, self.0.to_ns(i)))
    }
    fn spawn(&self, future: Pin<Box<dyn Future<Output = ()> + Send>>) {
        let mut st = self.0.lock();
        let id = st.alloc_task(TaskKind::Driver);
        st.spawned.push((id, future));
    }
    fn wrap_udp_socket(&self, _t: std::net::UdpSocket) -> io::Result<Box<dyn AsyncUdpSocket>> {
        Err(io::Error::new(io::ErrorKind::Unsupported, "asyncsim: use new_with_abstract_socket"))
    }
    fn now(&self) -> Instant {
        let mut st = self.0.lock();
        st.now_ns += st.tick_ns;
        self.0.epoch + Duration::from_nanos(st.now_ns)
    }
}

impl St {
    fn alloc_task(&mut self, kind: TaskKind) -> TaskId {
        let id = self.life.len();
        self.life.push(Life::Alive);
        self.kinds.push(kind);
        self.died_at.push(0);
        self.dead_count.push(0);
        self.ready.insert(id);
        id
    }
    pub fn live_tasks(&self, kind: TaskKind) -> usize {
        self.life.iter().zip(&self.kinds).filter(|(l, k)| **l == Life::Alive && **k == kind).count()
    }
    /// (wakes into completed application tasks, largest number of wakes into one completed driver task)
    pub fn dead_wake_summary(&self) -> (u32, u32) {
        let mut app = 0;
        let mut drv = 0;
        for (i, c) in self.dead_count.iter().enumerate() {
            match self.kinds[i] {
                TaskKind::App => app += c,
                TaskKind::Driver => drv = drv.max(*c),
            }
        }
        (app, drv)
    }
    pub fn ready_len(&self) -> usize {
        self.ready.len()
    }
    pub fn inflight_len(&self) -> usize {
        self.inflight.len()
    }
    pub fn faults_exhausted(&self) -> bool {
        self.fault_pos >= self.spec.faults.len()
    }
    /// Sockets that hold undelivered datagrams although nobody will poll them again: the last
    /// `poll_recv` did not return Pending (so the socket owes no wakeup) and the queue is not empty.
    pub fn stranded_sockets(&self) -> Vec<(SocketAddr, usize)> {
        self.socks.iter().filter(|(_, s)| !s.armed && !s.queue.is_empty()).map(|(a, s)| (*a, s.queue.len())).collect()
    }
}

// ---------------------------------------------------------------------------------------------
// Timers
// ---------------------------------------------------------------------------------------------

pub struct SimTimer {
    sim: Arc<SimInner>,
    id: u64,
}

impl fmt::Debug for SimTimer {
    fn fmt(&self, f: &mut fmt::Formatter<'_>) -> fmt::Result {
        write!(f, "SimTimer({})", self.id)
    }
}

impl SimTimer {
    pub fn new(sim: &Arc<SimInner>, deadline_ns: u64) -> Self {
        let mut st = sim.lock();
        let id = st.next_timer;
        st.next_timer += 1;
        st.timers_created += 1;
        st.timers.insert(id, TimerEnt { deadline_ns, waker: None });
        Self { sim: sim.clone(), id }
    }
    pub fn poll_timer(&self, cx: &mut Context<'_>) -> Poll<()> {
        let mut st = self.sim.lock();
        let now = st.now_ns;
        let t = st.timers.get_mut(&self.id).expect("timer entry");
        if now >= t.deadline_ns {
            t.waker = None;
            Poll::Ready(())
        } else {
            let old = t.waker.replace(cx.waker().clone());
            drop(st);
            drop(old);
            Poll::Pending
        }
    }
}

impl AsyncTimer for SimTimer {
    fn reset(self: Pin<&mut Self>, i: Instant) {
        let ns = self.sim.to_ns(i);
        let mut st = self.sim.lock();
        st.timer_resets += 1;
        // the registered waker (if any) stays and will be woken at the new deadline, like
        // tokio's `Sleep::reset`
        st.timers.get_mut(&self.id).expect("timer entry").deadline_ns = ns;
    }
    fn poll(self: Pin<&mut Self>, cx: &mut Context<'_>) -> Poll<()> {
        self.poll_timer(cx)
    }
}

impl Drop for SimTimer {
    fn drop(&mut self) {
        let ent = self.sim.lock().timers.remove(&self.id);
        drop(ent);
    }
}

/// `sleep` for application tasks (virtual time)
pub struct Sleep(SimTimer);

impl Future for Sleep {
    type Output = ();
    fn poll(self: Pin<&mut Self>, cx: &mut Context<'_>) -> Poll<()> {
        self.0.poll_timer(cx)
    }
}

pub fn sleep_until(sim: &Arc<SimInner>, deadline_ns: u64) -> Sleep {
    Sleep(SimTimer::new(sim, deadline_ns))
}

pub fn sleep(sim: &Arc<SimInner>, d_ns: u64) -> Sleep {
    let now = sim.now_ns();
    sleep_until(sim, now + d_ns)
}

/// Returns Pending once (after waking itself), so other ready tasks may run in between
#[derive(Default)]
pub struct Yield(bool);

impl Future for Yield {
    type Output = ();
    fn poll(mut self: Pin<&mut Self>, cx: &mut Context<'_>) -> Poll<()> {
        if self.0 {
            Poll::Ready(())
        } else {
            self.0 = true;
            cx.waker().wake_by_ref();
            Poll::Pending
        }
    }
}

// ---------------------------------------------------------------------------------------------
// Sockets
// ---------------------------------------------------------------------------------------------

pub struct SimSocket {
    sim: Arc<SimInner>,
    addr: SocketAddr,
}

impl fmt::Debug for SimSocket {
    fn fmt(&self, f: &mut fmt::Formatter<'_>) -> fmt::Result {
        write!(f, "SimSocket({})", self.addr)
    }
}

impl SimSocket {
    pub fn bind(sim: &Arc<SimInner>, addr: SocketAddr) -> Box<dyn AsyncUdpSocket> {
        sim.lock().socks.insert(addr, SockSt::default());
        Box::new(Self { sim: sim.clone(), addr })
    }
}

impl Drop for SimSocket {
    fn drop(&mut self) {
        let s = self.sim.lock().socks.remove(&self.addr);
        drop(s);
    }
}

impl AsyncUdpSocket for SimSocket {
    fn create_sender(&self) -> Pin<Box<dyn UdpSender>> {
        let max = self.sim.lock().spec.max_tx_segments.max(1) as usize;
        Box::pin(SimSender { sim: self.sim.clone(), addr: self.addr, retry: false, max })
    }

    fn poll_recv(
        &mut self,
        cx: &mut Context<'_>,
        bufs: &mut [IoSliceMut<'_>],
        meta: &mut [RecvMeta],
    ) -> Poll<io::Result<usize>> {
        let mut st = self.sim.lock();
        let batch = (st.spec.recv_batch.max(1) as usize).min(bufs.len()).min(meta.len());
        let max_seg = st.spec.max_rx_segments.max(1) as usize;
        let local_ip = self.addr.ip();
        let mut coalesced = 0u64;
        let mut delivered = 0u64;
        let sock = match st.socks.get_mut(&self.addr) {
            Some(s) => s,
            None => return Poll::Ready(Err(io::Error::new(io::ErrorKind::NotConnected, "socket closed"))),
        };
        if sock.queue.is_empty() {
            sock.armed = true;
            let old = sock.waker.replace(cx.waker().clone());
            drop(st);
            drop(old);
            return Poll::Pending;
        }
        sock.armed = false;
        let mut n = 0;
        while n < batch {
            let Some(first) = sock.queue.pop_front() else { break };
            let buf = &mut bufs[n];
            let stride = first.data.len();
            assert!(stride <= buf.len(), "asyncsim: receive buffer {} too small for datagram {}", buf.len(), stride);
            buf[..stride].copy_from_slice(&first.data);
            let mut len = stride;
            let mut segs = 1;
            delivered += 1;
            // GRO: following datagrams from the same source, same ECN, no larger than `stride`;
            // only the last one may be shorter.
            let mut last_full = true;
            while segs < max_seg && last_full {
                let ok = match sock.queue.front() {
                    Some(nx) => nx.src == first.src && nx.ecn == first.ecn && nx.data.len() <= stride && !nx.data.is_empty() && len + nx.data.len() <= buf.len(),
                    None => false,
                };
                if !ok {
                    break;
                }
                let nx = sock.queue.pop_front().unwrap();
                buf[len..len + nx.data.len()].copy_from_slice(&nx.data);
                len += nx.data.len();
                last_full = nx.data.len() == stride;
                segs += 1;
                coalesced += 1;
                delivered += 1;
            }
            let mut m = RecvMeta::default();
            m.addr = first.src;
            m.len = len;
            m.stride = stride;
            m.ecn = first.ecn;
            m.dst_ip = Some(local_ip);
            meta[n] = m;
            n += 1;
        }
        st.net.gro_coalesced += coalesced;
        st.net.delivered += delivered;
        Poll::Ready(Ok(n))
    }

    fn local_addr(&self) -> io::Result<SocketAddr> {
        Ok(self.addr)
    }

    fn max_receive_segments(&self) -> usize {
        self.sim.lock().spec.max_rx_segments.max(1) as usize
    }

    fn may_fragment(&self) -> bool {
        self.sim.lock().spec.may_fragment
    }
}

pub struct SimSender {
    sim: Arc<SimInner>,
    addr: SocketAddr,
    /// the previous `poll_send` reported "not writable"; this one goes through
    retry: bool,
    max: usize,
}

impl fmt::Debug for SimSender {
    fn fmt(&self, f: &mut fmt::Formatter<'_>) -> fmt::Result {
        write!(f, "SimSender({})", self.addr)
    }
}

impl UdpSender for SimSender {
    fn poll_send(mut self: Pin<&mut Self>, t: &Transmit<'_>, cx: &mut Context<'_>) -> Poll<io::Result<()>> {
        let sim = self.sim.clone();
        let mut st = sim.lock();
        if !self.retry {
            let block = st.spec.send_block.get(st.block_pos).copied().unwrap_or(false);
            st.block_pos += 1;
            if block {
                self.retry = true;
                st.net.send_blocked += 1;
                let at = st.now_ns + 20_000;
                st.blocked_senders.push((at, cx.waker().clone()));
                return Poll::Pending;
            }
        }
        self.retry = false;
        let seg = match t.segment_size {
            Some(s) if s > 0 && s < t.contents.len() => {
                st.net.gso_batches += 1;
                s
            }
            _ => t.contents.len().max(1),
        };
        let lat = st.spec.latency_us as u64 * 1000;
        for chunk in t.contents.chunks(seg) {
            let f = st.spec.faults.get(st.fault_pos).copied().unwrap_or(Fault::Deliver);
            st.fault_pos += 1;
            st.net.sent += 1;
            let mk = || Dgram { src: self.addr, dst: t.destination, ecn: t.ecn, data: chunk.to_vec() };
            let now = st.now_ns;
            if f != Fault::Deliver {
                st.net.last_fault_ns = now;
            }
            if st.wire_log.is_some() {
                let line = format!("[{:>10.3}ms] {} -> {} {}B {:?}: {}", now as f64 / 1e6, self.addr.port(), t.destination.port(), chunk.len(), f, describe(chunk));
                st.wire_log.as_mut().unwrap().push(line);
            }
            match f {
                Fault::Deliver => {
                    let k = (now + lat, st.next_seq());
                    st.inflight.insert(k, mk());
                }
                Fault::Drop => st.net.dropped += 1,
                Fault::Dup => {
                    st.net.duplicated += 1;
                    let k = (now + lat, st.next_seq());
                    st.inflight.insert(k, mk());
                    let k = (now + lat + 1_000, st.next_seq());
                    st.inflight.insert(k, mk());
                }
                Fault::Delay(us) => {
                    st.net.delayed += 1;
                    let k = (now + lat + us as u64 * 1000, st.next_seq());
                    st.inflight.insert(k, mk());
                }
            }
        }
        Poll::Ready(Ok(()))
    }

    fn max_transmit_segments(&self) -> usize {
        self.max
    }
}

impl St {
    fn next_seq(&mut self) -> u64 {
        self.seq += 1;
        self.seq
    }

    /// Fire everything that is due at the current virtual time; returns the wakers to invoke
    /// (outside the lock).
    fn collect_due(&mut self) -> Vec<Waker> {
        let now = self.now_ns;
        let mut out = vec![];
        for t in self.timers.values_mut() {
            if t.deadline_ns <= now {
                if let Some(w) = t.waker.take() {
                    out.push(w);
                }
            }
        }
        while let Some((&k, _)) = self.inflight.iter().next() {
            if k.0 > now {
                break;
            }
            let d = self.inflight.remove(&k).unwrap();
            match self.socks.get_mut(&d.dst) {
                Some(s) => {
                    s.queue.push_back(d);
                    if let Some(w) = s.waker.take() {
                        out.push(w);
                    }
                }
                None => self.net.no_route += 1,
            }
        }
        let mut i = 0;
        while i < self.blocked_senders.len() {
            if self.blocked_senders[i].0 <= now {
                out.push(self.blocked_senders.remove(i).1);
            } else {
                i += 1;
            }
        }
        out
    }

    /// Earliest future instant at which something can happen by itself
    fn next_event(&self) -> Option<u64> {
        let t = self.timers.values().filter(|t| t.waker.is_some()).map(|t| t.deadline_ns).min();
        let n = self.inflight.keys().next().map(|k| k.0);
        let b = self.blocked_senders.iter().map(|b| b.0).min();
        [t, n, b].into_iter().flatten().min()
    }
}

// ---------------------------------------------------------------------------------------------
// Executor
// ---------------------------------------------------------------------------------------------

/// Handle given to application tasks so they can spawn sibling tasks while being polled
#[derive(Clone)]
pub struct Spawner {
    sim: Arc<SimInner>,
    queue: Rc<RefCell<Vec<(TaskId, LocalFut, &'static str)>>>,
}

impl Spawner {
    pub fn spawn(&self, name: &'static str, fut: impl Future<Output = ()> + 'static) -> TaskId {
        let id = self.sim.lock().alloc_task(TaskKind::App);
        self.queue.borrow_mut().push((id, Box::pin(fut), name));
        id
    }
}

pub struct Exec {
    pub sim: Arc<SimInner>,
    tasks: Vec<Option<LocalFut>>,
    pub names: Vec<&'static str>,
    spawner: Spawner,
    sched: Vec<u8>,
    pos: usize,
    last: TaskId,
    pub steps: u64,
    /// steps at which an application task was polled while a driver task was ready
    pub app_before_driver: u64,
    /// steps at which there was a real choice (>= 2 ready tasks)
    pub choices: u64,
    pub advances: u64,
    /// id of the task being polled (for the application layer)
    pub current: Rc<std::cell::Cell<TaskId>>,
    pub panicked: Option<crate::core::PanicInfo>,
}

impl Exec {
    pub fn new(spec: NetSpec, sched: Vec<u8>) -> Self {
        let tick = spec.tick_ns as u64;
        let sim = Arc::new(SimInner {
            epoch: Instant::now(),
            st: Mutex::new(St {
                now_ns: 1_000_000,
                tick_ns: tick,
                ready: BTreeSet::new(),
                life: vec![],
                kinds: vec![],
                died_at: vec![],
                spawned: vec![],
                timers: BTreeMap::new(),
                next_timer: 0,
                spec,
                fault_pos: 0,
                block_pos: 0,
                socks: BTreeMap::new(),
                inflight: BTreeMap::new(),
                seq: 0,
                blocked_senders: vec![],
                net: NetStats::default(),
                wakes: 0,
                dead_wakes: 0,
                dead_wakes_late: 0,
                dead_wake_log: vec![],
                dead_count: vec![],
                timers_created: 0,
                timer_resets: 0,
                wire_log: None,
            }),
        });
        let spawner = Spawner { sim: sim.clone(), queue: Rc::new(RefCell::new(vec![])) };
        Self {
            sim,
            tasks: vec![],
            names: vec![],
            spawner,
            sched,
            pos: 0,
            last: 0,
            steps: 0,
            app_before_driver: 0,
            choices: 0,
            advances: 0,
            current: Rc::new(std::cell::Cell::new(usize::MAX)),
            panicked: None,
        }
    }

    pub fn runtime(&self) -> Arc<dyn Runtime> {
        Arc::new(SimRuntime(self.sim.clone()))
    }

    pub fn spawner(&self) -> Spawner {
        self.spawner.clone()
    }

    fn absorb_spawned(&mut self) {
        let drv: Vec<_> = std::mem::take(&mut self.sim.lock().spawned);
        for (id, f) in drv {
            self.put(id, f, "driver");
        }
        let app: Vec<_> = std::mem::take(&mut *self.spawner.queue.borrow_mut());
        for (id, f, name) in app {
            self.put(id, f, name);
        }
    }

    fn put(&mut self, id: TaskId, f: LocalFut, name: &'static str) {
        if self.tasks.len() <= id {
            self.tasks.resize_with(id + 1, || None);
            self.names.resize(id + 1, "");
        }
        self.tasks[id] = Some(f);
        self.names[id] = name;
    }

    pub fn kind(&self, id: TaskId) -> TaskKind {
        self.sim.lock().kinds[id]
    }

    pub fn is_alive(&self, id: TaskId) -> bool {
        self.sim.lock().life.get(id) == Some(&Life::Alive)
    }

    /// Whether the task has been woken and awaits its turn
    pub fn is_ready(&self, id: TaskId) -> bool {
        self.sim.lock().ready.contains(&id)
    }

    pub fn alive_ids(&self, kind: TaskKind) -> Vec<TaskId> {
        let st = self.sim.lock();
        (0..st.life.len()).filter(|&i| st.life[i] == Life::Alive && st.kinds[i] == kind).collect()
    }

    fn fire_due(&mut self) {
        let w = self.sim.lock().collect_due();
        for w in w {
            w.wake();
        }
    }

    /// Poll one ready task chosen by the schedule. Returns `None` when no task is ready.
    pub fn poll_one(&mut self) -> Option<TaskId> {
        self.absorb_spawned();
        self.fire_due();
        let (id, app_first, choice) = {
            let st = self.sim.lock();
            let len = st.ready.len();
            if len == 0 {
                return None;
            }
            let idx = if self.pos < self.sched.len() {
                let b = self.sched[self.pos] as usize;
                (b * len) >> 8
            } else {
                // round robin: first ready id above the one polled last
                match st.ready.range(self.last + 1..).next() {
                    Some(&id) => st.ready.iter().position(|&x| x == id).unwrap(),
                    None => 0,
                }
            };
            let id = *st.ready.iter().nth(idx).unwrap();
            let driver_ready = st.ready.iter().any(|&x| st.kinds[x] == TaskKind::Driver);
            (id, st.kinds[id] == TaskKind::App && driver_ready, len >= 2)
        };
        if self.pos < self.sched.len() {
            self.pos += 1;
        }
        if app_first {
            self.app_before_driver += 1;
        }
        if choice {
            self.choices += 1;
        }
        self.last = id;
        self.poll_task(id);
        Some(id)
    }

    /// Poll a specific task (used for probes as well); a no-op for completed tasks
    pub fn poll_task(&mut self, id: TaskId) {
        self.sim.lock().ready.remove(&id);
        let Some(mut fut) = self.tasks.get_mut(id).and_then(|t| t.take()) else { return };
        self.steps += 1;
        let waker = Waker::from(Arc::new(TaskWaker { sim: self.sim.clone(), id }));
        let mut cx = Context::from_waker(&waker);
        self.current.set(id);
        let r = crate::core::catch(|| fut.as_mut().poll(&mut cx));
        self.current.set(usize::MAX);
        match r {
            Ok(Poll::Pending) => self.tasks[id] = Some(fut),
            Ok(Poll::Ready(())) => {
                {
                    let mut st = self.sim.lock();
                    st.life[id] = Life::Dead;
                    st.died_at[id] = st.now_ns;
                    st.ready.remove(&id);
                }
                // dropped outside the lock: destructors call back into the runtime
                drop(fut);
            }
            Err(p) => {
                // A panic may have poisoned quinn's mutexes; never touch (or drop) this world again.
                std::mem::forget(fut);
                if self.panicked.is_none() {
                    self.panicked = Some(p);
                }
            }
        }
    }

    /// Jump virtual time to the next scheduled event. Returns false when nothing is scheduled
    /// (or the next event lies beyond `horizon_ns`).
    pub fn advance(&mut self, horizon_ns: u64) -> bool {
        let next = {
            let mut st = self.sim.lock();
            match st.next_event() {
                Some(t) if t <= horizon_ns => {
                    if t > st.now_ns {
                        st.now_ns = t;
                    }
                    true
                }
                _ => false,
            }
        };
        if next {
            self.advances += 1;
            self.fire_due();
        }
        next
    }

    pub fn has_ready(&mut self) -> bool {
        self.absorb_spawned();
        self.fire_due();
        !self.sim.lock().ready.is_empty()
    }

    /// Leak every task (after a panic inside quinn: its mutexes may be poisoned, so running
    /// destructors could abort the process)
    pub fn leak(mut self) {
        for t in self.tasks.drain(..) {
            std::mem::forget(t);
        }
        let q: Vec<_> = std::mem::take(&mut *self.spawner.queue.borrow_mut());
        std::mem::forget(q);
        let s: Vec<_> = std::mem::take(&mut self.sim.lock().spawned);
        std::mem::forget(s);
    }
}

// ---------------------------------------------------------------------------------------------
// Debug aid: print quinn's tracing events (QV_LOG=1 during a replay)
// ---------------------------------------------------------------------------------------------

pub struct PrintSub;

struct FieldPrinter(String);
impl tracing::field::Visit for FieldPrinter {
    fn record_debug(&mut self, field: &tracing::field::Field, value: &dyn fmt::Debug) {
        use std::fmt::Write;
        let _ = write!(self.0, " {}={:?}", field.name(), value);
    }
}

impl tracing::Subscriber for PrintSub {
    fn enabled(&self, _: &tracing::Metadata<'_>) -> bool {
        true
    }
    fn new_span(&self, _: &tracing::span::Attributes<'_>) -> tracing::span::Id {
        tracing::span::Id::from_u64(1)
    }
    fn record(&self, _: &tracing::span::Id, _: &tracing::span::Record<'_>) {}
    fn record_follows_from(&self, _: &tracing::span::Id, _: &tracing::span::Id) {}
    fn event(&self, event: &tracing::Event<'_>) {
        let mut p = FieldPrinter(String::new());
        event.record(&mut p);
        eprintln!("LOG {} {}:{}{}", event.metadata().level(), event.metadata().target(), event.metadata().line().unwrap_or(0), p.0);
    }
    fn enter(&self, _: &tracing::span::Id) {}
    fn exit(&self, _: &tracing::span::Id) {}
}

/// Install the printing subscriber for the current thread while the guard lives
pub fn debug_log() -> Option<tracing::subscriber::DefaultGuard> {
    if std::env::var("QV_LOG").is_ok() {
        Some(tracing::subscriber::set_default(PrintSub))
    } else {
        None
    }
}
