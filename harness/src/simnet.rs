//! E1 `simnet`: a deterministic network of sans-IO quinn-proto endpoints on a virtual clock.
//!
//! A world is a pure function of its scenario. It records a trace (every transmit with the
//! observer's decoding of each packet, every delivery and its routing, every application event,
//! timer services and state probes) that property-specific oracles analyse.

use crate::app::*;
use crate::cfg::*;
use crate::simcrypto::*;
use crate::spec::*;
use crate::wire;
use bytes::BytesMut;
use quinn_proto::{
    ClientConfig, Connection, ConnectionEvent, ConnectionHandle, DatagramEvent, EcnCodepoint, Endpoint, Incoming,
    ServerConfig, Side, Transmit,
};
use std::cell::RefCell;
use std::collections::{BTreeMap, BinaryHeap};
use std::net::{IpAddr, Ipv4Addr, Ipv6Addr, SocketAddr};
use std::rc::Rc;
use std::sync::atomic::{AtomicU64, Ordering};
use std::sync::{Arc, Mutex, OnceLock};
use std::time::{Duration, Instant};

pub fn process_epoch() -> Instant {
    static E: OnceLock<Instant> = OnceLock::new();
    *E.get_or_init(Instant::now)
}

/// Lightweight probe of connection state around `poll_transmit`
#[derive(Debug, Clone, Default)]
pub struct ProbeLite {
    pub in_flight: u64,
    pub ack_eliciting: u64,
    pub window: u64,
    pub mtu: u16,
    pub loss_probes: [u32; 3],
    pub validated: bool,
    pub total_sent: u64,
    pub total_recvd: u64,
    pub state: u8,
    pub mtu_probe: Option<u64>,
    pub pto_count: u32,
    pub pto: [Duration; 3],
    pub remote: Option<SocketAddr>,
    pub unacked_data: u64,
    pub send_window: u64,
    pub peer_max_udp: u16,
}

pub fn probe_lite(c: &Connection) -> ProbeLite {
    let p = c.verif_probe();
    ProbeLite {
        in_flight: p.bytes_in_flight,
        ack_eliciting: p.ack_eliciting_in_flight,
        window: p.congestion_window,
        mtu: p.current_mtu,
        loss_probes: p.loss_probes,
        validated: p.path_validated,
        total_sent: p.path_total_sent,
        total_recvd: p.path_total_recvd,
        state: p.state,
        mtu_probe: p.mtu_probe_in_flight,
        pto_count: p.pto_count,
        pto: p.pto,
        remote: p.path_remote,
        unacked_data: p.streams.unacked_data,
        send_window: p.streams.send_window,
        peer_max_udp: 0,
    }
}

/// Observer's view of one frame (payload bytes dropped, lengths kept)
#[derive(Debug, Clone, PartialEq)]
pub enum OF {
    Padding(usize),
    Ping,
    Ack { largest: u64, ranges: Vec<(u64, u64)>, ecn: bool },
    ResetStream { id: u64, code: u64, final_size: u64 },
    StopSending { id: u64, code: u64 },
    Crypto { offset: u64, len: usize },
    NewToken { token: Vec<u8> },
    Stream { id: u64, offset: u64, len: usize, fin: bool },
    MaxData(u64),
    MaxStreamData { id: u64, max: u64 },
    MaxStreams { bidi: bool, max: u64 },
    DataBlocked(u64),
    StreamDataBlocked { id: u64, limit: u64 },
    StreamsBlocked { bidi: bool, limit: u64 },
    NewConnectionId { seq: u64, retire_prior_to: u64, cid: Vec<u8>, reset_token: [u8; 16] },
    RetireConnectionId(u64),
    PathChallenge(u64),
    PathResponse(u64),
    ConnectionClose { code: u64, reason: Vec<u8> },
    ApplicationClose { code: u64, reason: Vec<u8> },
    HandshakeDone,
    AckFrequency { seq: u64, threshold: u64, max_ack_delay: u64, reordering: u64 },
    ImmediateAck,
    Datagram { len: usize, id: Option<u64> },
}

impl OF {
    pub fn from_wire(f: wire::Frame) -> OF {
        use wire::Frame as F;
        match f {
            F::Padding(n) => OF::Padding(n),
            F::Ping => OF::Ping,
            F::Ack { largest, ranges, ecn, .. } => OF::Ack { largest, ranges, ecn: ecn.is_some() },
            F::ResetStream { id, code, final_size } => OF::ResetStream { id, code, final_size },
            F::StopSending { id, code } => OF::StopSending { id, code },
            F::Crypto { offset, data } => OF::Crypto { offset, len: data.len() },
            F::NewToken { token } => OF::NewToken { token },
            F::Stream { id, offset, data, fin, .. } => OF::Stream { id, offset, len: data.len(), fin },
            F::MaxData(v) => OF::MaxData(v),
            F::MaxStreamData { id, max } => OF::MaxStreamData { id, max },
            F::MaxStreams { bidi, max } => OF::MaxStreams { bidi, max },
            F::DataBlocked(v) => OF::DataBlocked(v),
            F::StreamDataBlocked { id, limit } => OF::StreamDataBlocked { id, limit },
            F::StreamsBlocked { bidi, limit } => OF::StreamsBlocked { bidi, limit },
            F::NewConnectionId { seq, retire_prior_to, cid, reset_token } => OF::NewConnectionId { seq, retire_prior_to, cid, reset_token },
            F::RetireConnectionId(s) => OF::RetireConnectionId(s),
            F::PathChallenge(t) => OF::PathChallenge(t),
            F::PathResponse(t) => OF::PathResponse(t),
            F::ConnectionClose { code, reason, .. } => OF::ConnectionClose { code, reason },
            F::ApplicationClose { code, reason } => OF::ApplicationClose { code, reason },
            F::HandshakeDone => OF::HandshakeDone,
            F::AckFrequency { seq, threshold, max_ack_delay, reordering } => OF::AckFrequency { seq, threshold, max_ack_delay, reordering },
            F::ImmediateAck => OF::ImmediateAck,
            F::Datagram { data, .. } => OF::Datagram {
                len: data.len(),
                id: if data.len() >= 8 { Some(u64::from_be_bytes(data[..8].try_into().unwrap())) } else { None },
            },
            F::Raw(_) => OF::Padding(0),
        }
    }
    pub fn is_ack_eliciting(&self) -> bool {
        !matches!(self, OF::Padding(_) | OF::Ack { .. } | OF::ConnectionClose { .. } | OF::ApplicationClose { .. })
    }
}

#[derive(Debug, Clone)]
pub struct PktRec {
    pub ty: wire::PktType,
    pub pn: u64,
    pub dcid: Vec<u8>,
    pub scid: Vec<u8>,
    pub token_len: usize,
    pub key_phase: bool,
    pub size: usize,
    /// None when the payload could not be decoded (e.g. real TLS)
    pub frames: Option<Vec<OF>>,
}

impl PktRec {
    pub fn ack_eliciting(&self) -> bool {
        self.frames.as_ref().is_some_and(|f| f.iter().any(|x| x.is_ack_eliciting()))
    }
    pub fn has(&self, pred: impl Fn(&OF) -> bool) -> bool {
        self.frames.as_ref().is_some_and(|f| f.iter().any(pred))
    }
}

#[derive(Debug, Clone)]
pub struct DgRec {
    pub id: u64,
    pub size: usize,
    /// hash of the datagram bytes as emitted
    pub hash: u64,
    pub pkts: Vec<PktRec>,
    /// What the link did with it
    pub fate: &'static str,
}

#[derive(Debug, Clone)]
pub enum Routed {
    Conn(usize),
    NewIncoming,
    Response(usize),
    Nothing,
    NoEndpoint,
}

#[derive(Debug, Clone)]
pub enum Rec {
    Tx {
        t: u64,
        conn: usize,
        dst: SocketAddr,
        size: usize,
        seg: Option<usize>,
        max_dgrams: usize,
        ecn: bool,
        dgrams: Vec<DgRec>,
        before: Option<ProbeLite>,
        after: Option<ProbeLite>,
    },
    /// Stateless transmit by an endpoint (reset, version negotiation, refusal, retry)
    TxEp { t: u64, ep: usize, dst: SocketAddr, size: usize, inciting_size: usize, dgram: DgRec },
    Rx { t: u64, ep: usize, from: SocketAddr, dgram_id: u64, origin_conn: Option<usize>, size: usize, routed: Routed, copy: u32, corrupted: bool, injected: bool },
    Ev { t: u64, conn: usize, ev: String },
    Timeout { t: u64, conn: usize, deadline: u64, spurious: bool },
    Drained { t: u64, conn: usize },
    /// value of poll_timeout (µs, rounded up) whenever it changes
    NextTimeout { t: u64, conn: usize, at: Option<u64> },
    Lost { t: u64, conn: usize, reason: String },
}

/// Anti-amplification ledger kept by the link for one server connection (C07/C15)
#[derive(Debug, Default, Clone)]
pub struct AmpLedger {
    /// per remote address: bytes received from it that the endpoint handed (or will hand) to this connection
    pub recvd: BTreeMap<SocketAddr, u64>,
    /// per remote address: bytes this connection sent to it
    pub sent: BTreeMap<SocketAddr, u64>,
    pub validated: BTreeMap<SocketAddr, bool>,
    /// times the connection was seen to stop at the limit and later resume
    pub blocked_then_resumed: u32,
    pub was_at_limit: bool,
    pub max_ratio_x100: u64,
}

pub struct ConnState {
    pub ep: usize,
    pub ch: ConnectionHandle,
    pub c: Connection,
    pub app: App,
    pub side: Side,
    pub peer: Option<usize>,
    pub load_idx: usize,
    /// removed from the endpoint after Drained was relayed
    pub gone: bool,
    pub drained_events: u32,
    pub deadline: Option<(u64, u64)>, // (deadline µs, service time µs)
    pub started_us: u64,
    /// when this connection object came into being (a server connection: when it was accepted)
    pub created_us: u64,
    pub largest_pn_seen: [Option<u64>; 3],
    pub cc_log: Arc<Mutex<CcLog>>,
    pub dirty: bool,
    pub remote_cid_len: usize,
    pub last_rx_us: u64,
    pub last_service_at: u64,
    pub services_at_instant: u32,
    pub lost_at: Option<u64>,
    pub drained_at: Option<u64>,
    pub lost_events: u32,
    pub events_after_lost: Vec<String>,
    /// time the local application called close() (set by checks that close from outside the app)
    pub closed_at: Option<u64>,
    /// last time a datagram made `total_authed_packets` advance (only tracked when World::track_auth)
    pub last_auth_rx_us: Option<u64>,
    /// largest PTO (any space, µs) observed immediately before/after processing a datagram
    pub max_pto_us: u64,
    pub amp: AmpLedger,
}

pub struct EpState {
    pub ep: Endpoint,
    pub addrs: Vec<SocketAddr>,
    pub cur_src: usize,
    pub spec: EpSpec,
    pub is_server: bool,
    pub by_handle: BTreeMap<usize, usize>,
    pub pending_incoming: Vec<(u64, Incoming, u64)>,
    /// bytes received from an address while an Incoming from it is being held (credited at accept)
    pub pending_bytes: BTreeMap<SocketAddr, u64>,
    pub server_cfg: Option<Arc<ServerConfig>>,
}

#[derive(Clone)]
pub struct InFlight {
    pub at: u64,
    pub seq: u64,
    pub to: SocketAddr,
    pub from: SocketAddr,
    pub ecn: Option<EcnCodepoint>,
    pub bytes: Vec<u8>,
    pub dgram_id: u64,
    pub origin_conn: Option<usize>,
    pub copy: u32,
    pub corrupted: bool,
    /// put on the link by the attacker / the check rather than by the fault stream
    pub injected: bool,
}

impl PartialEq for InFlight {
    fn eq(&self, o: &Self) -> bool {
        self.at == o.at && self.seq == o.seq
    }
}
impl Eq for InFlight {}
impl PartialOrd for InFlight {
    fn partial_cmp(&self, o: &Self) -> Option<std::cmp::Ordering> {
        Some(self.cmp(o))
    }
}
impl Ord for InFlight {
    fn cmp(&self, o: &Self) -> std::cmp::Ordering {
        (o.at, o.seq).cmp(&(self.at, self.seq)) // min-heap
    }
}

/// Link tap / rewrite hook (C14): called for every datagram an endpoint or connection puts on the
/// link, before the fault stream and the attacker act on it. It may rewrite the datagram in place
/// (emptying `bytes` drops it) and return further datagrams to put on the link (queued ahead of the
/// genuine one, so on equal arrival times they are delivered first). Arguments: current time (us), the
/// datagram id the first returned extra datagram will get (ids are assigned consecutively), the
/// datagram.
pub type LinkHook = Box<dyn FnMut(u64, u64, &mut InFlight) -> Vec<InFlight>>;

/// What the server side of the world saw and decided for one `Incoming` (C14)
#[derive(Debug, Clone)]
pub struct IncomingRec {
    pub t: u64,
    pub ep: usize,
    /// id of the datagram whose delivery produced the Incoming
    pub dgram_id: u64,
    pub from: SocketAddr,
    pub validated: bool,
    pub may_retry: bool,
    pub odcid: Vec<u8>,
    /// "retry" | "accept" | "hold" | "ignore"
    pub action: &'static str,
}

#[derive(Clone, Debug)]
pub struct ConnLoad {
    pub client: SideLoad,
    pub server: SideLoad,
}

/// Everything that defines a world besides per-connection workloads
#[derive(Clone, Debug, serde::Serialize, serde::Deserialize, PartialEq)]
pub struct NetSpec {
    pub seed: u64,
    pub crypto: CryptoKind,
    pub client_ep: EpSpec,
    pub server_ep: EpSpec,
    pub client_tc: TcSpec,
    pub server_tc: TcSpec,
    pub srv: SrvSpec,
    /// one-way latency µs: client→server, server→client
    pub latency_us: [u32; 2],
    pub faults_c2s: Vec<Fault>,
    pub faults_s2c: Vec<Fault>,
    /// path MTU threshold changes: (at µs, limit); before the first entry the limit is 65535
    pub mtu_steps: Vec<(u32, u16)>,
    pub drv: DrvSpec,
    /// shift of the virtual epoch (C20)
    pub time_shift_us: u64,
    /// from this instant on the client endpoint's datagrams leave from its alternate address (a NAT
    /// rebinding as seen by the server); None: never
    #[serde(default)]
    pub client_move_at_us: Option<u32>,
    /// both endpoints live at IPv4 addresses (quinn treats a port-only change of an IPv4 peer as a
    /// probable NAT rebinding and keeps RTT / congestion state)
    #[serde(default)]
    pub ipv4: bool,
}

impl Default for NetSpec {
    fn default() -> Self {
        Self {
            seed: 1,
            crypto: CryptoKind::Sim,
            client_ep: EpSpec::default(),
            server_ep: EpSpec::default(),
            client_tc: TcSpec::default(),
            server_tc: TcSpec::default(),
            srv: SrvSpec::default(),
            latency_us: [10_000, 10_000],
            faults_c2s: vec![],
            faults_s2c: vec![],
            mtu_steps: vec![],
            drv: DrvSpec::default(),
            time_shift_us: 0,
            client_move_at_us: None,
            ipv4: false,
        }
    }
}

pub struct World {
    pub spec: NetSpec,
    pub now: u64,
    pub epoch: Instant,
    pub eps: Vec<EpState>,
    pub conns: Vec<ConnState>,
    pub queue: BinaryHeap<InFlight>,
    pub seq: u64,
    pub next_dgram_id: u64,
    pub trace: Vec<Rec>,
    pub record: bool,
    pub observe: bool,
    pub probe: bool,
    pub fault_i: [usize; 2],
    pub faults_done_at: Option<u64>,
    /// time the last non-Deliver verdict was applied to a datagram
    pub last_fault_at: u64,
    pub drv_i: usize,
    pub late_i: usize,
    pub step: u64,
    pub clock: SimClock,
    pub loads: Vec<ConnLoad>,
    pub ledgers: Vec<SharedLedger>,
    pub viol: Vec<Viol>,
    pub sim_client_cfg: Arc<SimClientConfig>,
    pub sim_server_cfg: Arc<SimServerConfig>,
    pub dcid_ctr: Arc<AtomicU64>,
    pub dcid_to_load: Rc<RefCell<BTreeMap<Vec<u8>, (usize, usize)>>>, // initial dcid -> (load idx, client conn)
    pub stats: WorldStats,
    pub step_limit: u64,
    pub hit_step_limit: bool,
    /// extra hook: datagrams the check wants injected: (at µs, to, from, bytes)
    pub lateness_total: u64,
    pub max_lateness: u64,
    /// DATAGRAM frames (id, len) carried by each emitted UDP datagram, for the receive-buffer model
    pub dgram_frames: BTreeMap<u64, Vec<(Option<u64>, usize)>>,
    /// drop every datagram emitted at or after this time (the peer disappears / path blackholes)
    pub blackhole_at: Option<u64>,
    /// sample total_authed_packets around every delivery (costly; used by C08)
    pub track_auth: bool,
    /// applied last to every ServerConfig the world builds (token key, time source, token lifetimes ...);
    /// call `reconfigure_server` after setting it
    pub server_cfg_hook: Option<Rc<dyn Fn(&mut ServerConfig)>>,
    pub link_hook: Option<LinkHook>,
    /// one record per Incoming the server endpoint produced
    pub incoming_log: Vec<IncomingRec>,
    /// log every Incoming and then `ignore` it (no Retry, no connection)
    pub incoming_ignore: bool,
    /// id of the datagram currently being delivered
    pub cur_rx_dgram: u64,
    /// attacker plan, applied to copies of genuine datagrams in emission order
    pub attacks: Vec<Attack>,
    pub attack_log: Vec<(u64, String)>,
    /// last 16 bytes of every datagram the attacker put on the link
    pub attack_tails: Vec<Vec<u8>>,
    /// connections that were handed a datagram whose last 16 bytes are the reset token the peer
    /// endpoint issued for the connection ID the connection was sending to at that moment
    pub exact_reset_seen: std::collections::BTreeSet<usize>,
    /// connections for which an injected datagram carried, when it arrived at their endpoint, the reset
    /// token of the connection ID they were sending to (whatever the endpoint then did with it)
    pub exact_reset_offered: std::collections::BTreeSet<usize>,
    /// (n, hold_us): the n-th Incoming (counted over all server endpoints, after Retry handling) is held
    /// for `hold_us` and then accepted with a server configuration whose idle timeout is shorter than
    /// that, so that `Endpoint::accept` abandons it as stale
    pub stale_accepts: Vec<(u32, u32)>,
    /// connections (index in `conns`) whose very first datagram is damaged on the link inside the
    /// protected payload: the server sees a well-formed Initial whose authentication fails at accept
    pub corrupt_first_of: std::collections::BTreeSet<usize>,
    conn_emitted: std::collections::BTreeSet<usize>,
    pub incoming_seen: u32,
    stale_due: Vec<Vec<u8>>,
    pub stale_abandoned: u32,
    pub last_incoming_size: u64,
    /// check the 3x anti-amplification inequality on every datagram a server connection emits
    pub check_amp: bool,
    pub client_token_store: Option<Arc<dyn quinn_proto::TokenStore>>,
    pub server_token_log: Option<Arc<dyn quinn_proto::TokenLog>>,
    /// addresses served by the check itself (puppet peers): datagrams sent there are collected here
    /// as (arrival time, source, bytes)
    pub sinks: BTreeMap<SocketAddr, Vec<(u64, SocketAddr, Vec<u8>)>>,
    /// C09: a genuine datagram handed to a connection must reach the peer of the connection that emitted it
    pub check_routing: bool,
    /// applications of connections accepted from a sink address are created in manual mode
    pub manual_apps_for_sinks: bool,
    /// crypto configuration used for every client connection instead of a fresh one per connect
    /// (C17: a rustls resumption store that outlives one connection); None = previous behaviour
    pub client_crypto: Option<Arc<dyn quinn_proto::crypto::ClientConfig>>,
}

#[derive(Debug, Default, Clone)]
pub struct WorldStats {
    pub dgrams_sent: u64,
    pub dgrams_dropped: u64,
    pub dgrams_duplicated: u64,
    pub dgrams_delayed: u64,
    pub dgrams_corrupted: u64,
    pub dgrams_mtu_dropped: u64,
    pub timeouts: u64,
    pub spurious_calls: u64,
    pub retries_sent: u64,
    pub stateless: u64,
    pub no_endpoint: u64,
}

pub const CLIENT_EP: usize = 0;
pub const SERVER_EP: usize = 1;

pub fn addr_v6(host: u16, port: u16) -> SocketAddr {
    SocketAddr::new(IpAddr::V6(Ipv6Addr::new(0xfd00, 0, 0, 0, 0, 0, 0, host)), port)
}
pub fn addr_v4(host: u8, port: u16) -> SocketAddr {
    SocketAddr::new(IpAddr::V4(Ipv4Addr::new(10, 0, 0, host)), port)
}

impl World {
    pub fn new(spec: NetSpec) -> Self {
        let epoch = process_epoch() + Duration::from_secs(3600) + Duration::from_micros(spec.time_shift_us);
        let clock = SimClock(Arc::new(AtomicU64::new(0)));
        let mut scc = SimClientConfig::new();
        scc.use_tickets = false;
        let mut ssc = SimServerConfig::new();
        ssc.accept_0rtt = spec.srv.accept_0rtt;
        ssc.flight_pad = spec.srv.flight_pad as usize;
        let mut w = Self {
            now: 0,
            epoch,
            eps: vec![],
            conns: vec![],
            queue: BinaryHeap::new(),
            seq: 0,
            next_dgram_id: 0,
            trace: vec![],
            record: true,
            observe: true,
            probe: false,
            fault_i: [0, 0],
            faults_done_at: None,
            last_fault_at: 0,
            drv_i: 0,
            late_i: 0,
            step: 0,
            clock,
            loads: vec![],
            ledgers: vec![],
            viol: vec![],
            sim_client_cfg: Arc::new(scc),
            sim_server_cfg: Arc::new(ssc),
            dcid_ctr: Arc::new(AtomicU64::new(0)),
            dcid_to_load: Rc::new(RefCell::new(BTreeMap::new())),
            stats: WorldStats::default(),
            step_limit: 400_000,
            hit_step_limit: false,
            lateness_total: 0,
            max_lateness: 0,
            dgram_frames: BTreeMap::new(),
            blackhole_at: None,
            track_auth: false,
            server_cfg_hook: None,
            link_hook: None,
            incoming_log: vec![],
            incoming_ignore: false,
            cur_rx_dgram: 0,
            attacks: vec![],
            attack_log: vec![],
            attack_tails: vec![], exact_reset_seen: Default::default(), exact_reset_offered: Default::default(), stale_accepts: vec![], corrupt_first_of: Default::default(), conn_emitted: Default::default(), incoming_seen: 0, stale_due: vec![], stale_abandoned: 0,
            last_incoming_size: 0,
            check_amp: true,
            client_token_store: None,
            server_token_log: None,
            sinks: BTreeMap::new(),
            check_routing: false,
            manual_apps_for_sinks: true,
            client_crypto: None,
            spec,
        };
        // the ledger below is keyed by address; a client that moves (and may be followed, given up and
        // followed again) needs the per-path ledger of C15
        if w.spec.client_move_at_us.is_some() {
            w.check_amp = false;
        }
        if w.spec.ipv4 {
            w.add_endpoint(false, vec![addr_v4(1, 5000)]);
            w.add_endpoint(true, vec![addr_v4(2, 4433)]);
        } else {
            w.add_endpoint(false, vec![addr_v6(1, 5000)]);
            w.add_endpoint(true, vec![addr_v6(2, 4433)]);
        }
        w
    }

    pub fn instant(&self, t_us: u64) -> Instant {
        self.epoch + Duration::from_micros(t_us)
    }
    pub fn now_instant(&self) -> Instant {
        self.instant(self.now)
    }

    pub fn server_config(&self) -> ServerConfig {
        let s = &self.spec;
        let mut sc = match s.crypto {
            CryptoKind::Sim => ServerConfig::new(self.sim_server_cfg.clone(), Arc::new(SimTokenKey(crate::core::mix(s.seed, 0x70)))),
            CryptoKind::Rustls => crate::tls::server_config(),
        };
        sc.transport_config(Arc::new(build_tc(&s.server_tc, None)));
        sc.migration(s.srv.migration);
        sc.retry_token_lifetime(Duration::from_millis(s.srv.retry_token_lifetime_ms as u64));
        sc.incoming_buffer_size(s.srv.incoming_buffer as u64);
        sc.time_source(Arc::new(self.clock.clone()));
        let mut vt = quinn_proto::ValidationTokenConfig::default();
        vt.sent(s.srv.tokens_sent as u32);
        if let Some(log) = &self.server_token_log {
            vt.log(log.clone());
        }
        sc.validation_token_config(vt);
        if let Some(h) = &self.server_cfg_hook {
            h(&mut sc);
        }
        sc
    }

    /// Rebuild the server endpoint's configuration from the current world fields (token log, hook ...)
    pub fn reconfigure_server(&mut self) {
        let sc = Arc::new(self.server_config());
        self.eps[SERVER_EP].ep.set_server_config(Some(sc.clone()));
        self.eps[SERVER_EP].server_cfg = Some(sc);
    }

    pub fn add_endpoint(&mut self, is_server: bool, addrs: Vec<SocketAddr>) -> usize {
        let idx = self.eps.len();
        let spec = if is_server { self.spec.server_ep.clone() } else { self.spec.client_ep.clone() };
        let ec = Arc::new(build_ep(&spec, crate::core::mix(self.spec.seed, idx as u64)));
        let sc = if is_server { Some(Arc::new(self.server_config())) } else { None };
        let ep = Endpoint::new(ec, sc.clone(), spec.allow_mtud);
        self.eps.push(EpState {
            ep,
            addrs,
            cur_src: 0,
            spec,
            is_server,
            by_handle: BTreeMap::new(),
            pending_incoming: vec![],
            pending_bytes: BTreeMap::new(),
            server_cfg: sc,
        });
        idx
    }

    pub fn client_config(&self, cc_log: Arc<Mutex<CcLog>>) -> ClientConfig {
        let s = &self.spec;
        let mut cc = match s.crypto {
            CryptoKind::Sim => ClientConfig::new(self.sim_client_cfg.clone()),
            CryptoKind::Rustls => match &self.client_crypto {
                Some(c) => ClientConfig::new(c.clone()),
                None => crate::tls::client_config(),
            },
        };
        cc.transport_config(Arc::new(build_tc(&s.client_tc, Some(cc_log))));
        let ctr = self.dcid_ctr.clone();
        let seed = s.seed;
        cc.initial_dst_cid_provider(Arc::new(move || {
            let n = ctr.fetch_add(1, Ordering::Relaxed);
            let a = crate::core::mix(seed ^ 0xdc1d, n);
            let b = crate::core::mix(a, 1);
            let mut v = a.to_le_bytes().to_vec();
            v.extend_from_slice(&b.to_le_bytes());
            let len = 8 + (a % 13) as usize;
            quinn_proto::ConnectionId::new(&v[..len.min(16)])
        }));
        if let Some(ts) = &self.client_token_store {
            cc.token_store(ts.clone());
        }
        cc
    }

    /// Start a client connection from endpoint `ep` to the server endpoint's first address
    pub fn connect(&mut self, ep: usize, load: ConnLoad) -> Result<usize, quinn_proto::ConnectError> {
        let server_addr = self.eps[SERVER_EP].addrs[0];
        self.connect_to(ep, load, server_addr)
    }

    /// Like `connect`, towards an arbitrary address (e.g. a sink address served by a puppet peer)
    pub fn connect_to(&mut self, ep: usize, load: ConnLoad, server_addr: SocketAddr) -> Result<usize, quinn_proto::ConnectError> {
        let load_idx = self.loads.len();
        self.loads.push(load.clone());
        let ledger: SharedLedger = Rc::new(RefCell::new(Ledger::default()));
        ledger.borrow_mut().dg_model_enabled = self.spec.crypto == CryptoKind::Sim && self.observe;
        self.ledgers.push(ledger.clone());
        let cc_log = Arc::new(Mutex::new(CcLog::default()));
        let cfg = self.client_config(cc_log.clone());
        let now = self.now_instant();
        let (ch, c) = self.eps[ep].ep.connect(now, cfg, server_addr, "localhost")?;
        let key = crate::core::mix(self.spec.seed, 0xc0 + load_idx as u64);
        let mut app = App::new(Side::Client, key, load.client.clone(), load.server.clone(), ledger);
        app.dgram_cfg = (self.spec.client_tc.dgram_recv.map(|x| x as usize), self.spec.client_tc.dgram_send as usize);
        app.peer_dgram_recv = self.spec.server_tc.dgram_recv.map(|x| (x as usize).min(65535));
        let k = self.conns.len();
        self.eps[ep].by_handle.insert(ch.0, k);
        self.conns.push(ConnState {
            ep,
            ch,
            c,
            app,
            side: Side::Client,
            peer: None,
            load_idx,
            gone: false,
            drained_events: 0,
            deadline: None,
            started_us: self.now,
            created_us: self.now,
            largest_pn_seen: [None; 3],
            cc_log,
            dirty: true,
            remote_cid_len: self.spec.server_ep.cid_len as usize,
            last_rx_us: self.now,
            last_service_at: u64::MAX,
            services_at_instant: 0,
            lost_at: None,
            drained_at: None,
            lost_events: 0,
            events_after_lost: vec![],
            closed_at: None,
            last_auth_rx_us: None,
            max_pto_us: 0,
            amp: AmpLedger::default(),
        });
        Ok(k)
    }

    fn next_max_dgrams(&mut self) -> usize {
        let d = &self.spec.drv.max_dgrams;
        let v = d[self.drv_i % d.len()].max(1) as usize;
        self.drv_i += 1;
        v
    }

    fn next_late(&mut self) -> u64 {
        let d = &self.spec.drv.late_us;
        if d.is_empty() {
            return 0;
        }
        let v = d[self.late_i % d.len()] as u64;
        self.late_i += 1;
        v
    }

    fn link_mtu(&self) -> usize {
        let mut m = 65535usize;
        for &(at, lim) in &self.spec.mtu_steps {
            if at as u64 <= self.now {
                m = lim as usize;
            }
        }
        m
    }

    fn ep_of_addr(&self, a: &SocketAddr) -> Option<usize> {
        self.eps.iter().position(|e| e.addrs.contains(a))
    }

    fn observe_dgram(&mut self, conn: Option<usize>, bytes: &[u8], short_cid_len: usize) -> Vec<PktRec> {
        if !self.observe {
            return vec![];
        }
        let sim = self.spec.crypto == CryptoKind::Sim;
        let mut out = vec![];
        if sim {
            for p in wire::decode_datagram(bytes, short_cid_len) {
                let Ok(p) = p else { break };
                let mut pn = 0;
                if let (Some(sp), Some(k)) = (p.ty.space(), conn) {
                    let largest = self.conns[k].largest_pn_seen[sp];
                    pn = wire::expand_pn(largest, p.pn_trunc, p.pn_len);
                    if largest.map_or(true, |l| pn > l) {
                        self.conns[k].largest_pn_seen[sp] = Some(pn);
                    }
                }
                let frames = if p.ty.space().is_some() {
                    wire::decode_frames(&p.payload).ok().map(|f| f.into_iter().map(OF::from_wire).collect())
                } else {
                    None
                };
                out.push(PktRec {
                    ty: p.ty,
                    pn,
                    dcid: p.dcid,
                    scid: p.scid,
                    token_len: p.token.len(),
                    key_phase: p.key_phase,
                    size: p.len,
                    frames,
                });
            }
        } else {
            // real TLS: only the cleartext long-header type bits / sizes are observable
            let mut off = 0;
            while off < bytes.len() {
                let first = bytes[off];
                if first & 0x80 == 0 {
                    out.push(PktRec { ty: wire::PktType::Short, pn: 0, dcid: vec![], scid: vec![], token_len: 0, key_phase: false, size: bytes.len() - off, frames: None });
                    break;
                }
                // long header: parse up to the length field (cleartext)
                let mut r = wire::Rd::new(&bytes[off..]);
                let parsed = (|| -> wire::WResult<(wire::PktType, usize, Vec<u8>, Vec<u8>, usize)> {
                    let f = r.u8()?;
                    let ver = r.u32()?;
                    let dl = r.u8()? as usize;
                    let d = r.bytes(dl)?.to_vec();
                    let sl = r.u8()? as usize;
                    let s = r.bytes(sl)?.to_vec();
                    if ver == 0 {
                        return Ok((wire::PktType::VersionNegotiation, bytes.len() - off, d, s, 0));
                    }
                    let ty = match (f >> 4) & 3 {
                        0 => wire::PktType::Initial,
                        1 => wire::PktType::ZeroRtt,
                        2 => wire::PktType::Handshake,
                        _ => wire::PktType::Retry,
                    };
                    if ty == wire::PktType::Retry {
                        return Ok((ty, bytes.len() - off, d, s, 0));
                    }
                    let mut tl = 0;
                    if ty == wire::PktType::Initial {
                        tl = r.var_bytes()?.len();
                    }
                    let len = r.var()? as usize;
                    Ok((ty, r.pos + len, d, s, tl))
                })();
                match parsed {
                    Ok((ty, len, d, s, tl)) => {
                        out.push(PktRec { ty, pn: 0, dcid: d, scid: s, token_len: tl, key_phase: false, size: len, frames: None });
                        off += len.max(1);
                    }
                    Err(_) => break,
                }
            }
        }
        out
    }

    /// Decode a datagram for the link's own bookkeeping (packet numbers are not expanded)
    fn observe_quiet(&mut self, bytes: &[u8], short_cid_len: usize) -> Vec<PktRec> {
        let was = self.observe;
        self.observe = true;
        let v = self.observe_dgram(None, bytes, short_cid_len);
        self.observe = was;
        v
    }

    /// Put one datagram on the link, applying the fault stream of its direction
    pub fn emit(&mut self, from_ep: usize, conn: Option<usize>, to: SocketAddr, ecn: Option<EcnCodepoint>, bytes: Vec<u8>, pkts: Vec<PktRec>) -> DgRec {
        let id = self.next_dgram_id;
        self.next_dgram_id += 1;
        self.stats.dgrams_sent += 1;
        let mut from = self.eps[from_ep].addrs[self.eps[from_ep].cur_src];
        if let (Some(t), false) = (self.spec.client_move_at_us, self.eps[from_ep].is_server) {
            if self.now >= t as u64 {
                // alternate address: same host, another port
                let mut alt = self.eps[from_ep].addrs[0];
                alt.set_port(alt.port() ^ 0x0400);
                if !self.eps[from_ep].addrs.contains(&alt) {
                    self.eps[from_ep].addrs.push(alt);
                }
                from = alt;
            }
        }
        let dir = if self.eps[from_ep].is_server { 1 } else { 0 };
        let lat = self.spec.latency_us[dir] as u64;
        let size = bytes.len();
        let dfr: Vec<(Option<u64>, usize)> = pkts
            .iter()
            .flat_map(|p| p.frames.iter().flatten())
            .filter_map(|f| if let OF::Datagram { len, id } = f { Some((*id, *len)) } else { None })
            .collect();
        if !dfr.is_empty() {
            self.dgram_frames.insert(id, dfr);
        }
        let mut rec = DgRec { id, size, hash: crate::core::hash64(&bytes), pkts, fate: "deliver" };
        if size > self.link_mtu() {
            self.stats.dgrams_mtu_dropped += 1;
            rec.fate = "mtu-drop";
            return rec;
        }
        if self.blackhole_at.is_some_and(|t| self.now >= t) {
            self.stats.dgrams_dropped += 1;
            rec.fate = "blackhole";
            return rec;
        }
        let faults = if dir == 0 { &self.spec.faults_c2s } else { &self.spec.faults_s2c };
        let mut f = faults.get(self.fault_i[dir]).cloned().unwrap_or(Fault::Deliver);
        self.fault_i[dir] += 1;
        if let Some(k) = conn {
            if self.conn_emitted.insert(k) && self.corrupt_first_of.contains(&k) && size >= 1200 {
                f = Fault::Corrupt(Corruption::Flip { pos: 3823, bit: 3 });
            }
        }
        if self.faults_done_at.is_none()
            && self.fault_i[0] >= self.spec.faults_c2s.len()
            && self.fault_i[1] >= self.spec.faults_s2c.len()
        {
            self.faults_done_at = Some(self.now);
        }
        let mut base = InFlight { at: self.now + lat, seq: 0, to, from, ecn, bytes, dgram_id: id, origin_conn: conn, copy: 0, corrupted: false, injected: false };
        if let Some(mut h) = self.link_hook.take() {
            let extra = h(self.now, self.next_dgram_id, &mut base);
            self.link_hook = Some(h);
            for mut e in extra {
                e.injected = true;
                e.dgram_id = self.next_dgram_id;
                self.next_dgram_id += 1;
                self.push(e);
            }
            if base.bytes.is_empty() {
                self.stats.dgrams_dropped += 1;
                rec.fate = "hook-drop";
                return rec;
            }
        }
        if !self.attacks.is_empty() {
            self.apply_attacks(id, from_ep, conn, &base);
        }
        if f != Fault::Deliver {
            self.last_fault_at = self.now;
        }
        match f {
            Fault::Deliver => self.push(base),
            Fault::Drop => {
                self.stats.dgrams_dropped += 1;
                rec.fate = "drop";
            }
            Fault::Dup { n, gap_us } => {
                self.stats.dgrams_duplicated += 1;
                rec.fate = "dup";
                for i in 0..=n as u64 {
                    let mut c = base.clone();
                    c.at += gap_us as u64 * i;
                    c.copy = i as u32;
                    self.push(c);
                }
            }
            Fault::Delay { us } => {
                self.stats.dgrams_delayed += 1;
                rec.fate = "delay";
                let mut c = base;
                c.at += us as u64;
                self.push(c);
            }
            Fault::Corrupt(k) => {
                self.stats.dgrams_corrupted += 1;
                rec.fate = "corrupt";
                let mut c = base;
                k.apply(&mut c.bytes);
                c.corrupted = true;
                if !c.bytes.is_empty() {
                    self.push(c);
                }
            }
            Fault::CorruptCopy(k) => {
                self.stats.dgrams_corrupted += 1;
                rec.fate = "corrupt-copy";
                let mut c = base.clone();
                k.apply(&mut c.bytes);
                c.corrupted = true;
                c.copy = 1;
                c.at += 1;
                self.push(base);
                if !c.bytes.is_empty() {
                    self.push(c);
                }
            }
            Fault::Ecn(e) => {
                rec.fate = "ecn";
                let mut c = base;
                c.ecn = match e {
                    1 => Some(EcnCodepoint::Ect1),
                    2 => Some(EcnCodepoint::Ect0),
                    3 => Some(EcnCodepoint::Ce),
                    _ => None,
                };
                self.push(c);
            }
        }
        rec
    }

    /// The CID `conn`'s peer currently uses as destination when sending to `conn`'s endpoint is not
    /// needed here; what an attacker needs is the CID `victim` sends to: taken from the victim's
    /// most recent short-header packet (falls back to long-header packets).
    pub fn dcid_in_use_by(&self, victim: usize) -> Option<Vec<u8>> {
        let mut long: Option<Vec<u8>> = None;
        for r in self.trace.iter().rev() {
            if let Rec::Tx { conn, dgrams, .. } = r {
                if *conn == victim {
                    for p in dgrams.iter().flat_map(|d| d.pkts.iter()) {
                        if p.ty == wire::PktType::Short && !p.dcid.is_empty() {
                            return Some(p.dcid.clone());
                        }
                        if long.is_none() && !p.dcid.is_empty() {
                            long = Some(p.dcid.clone());
                        }
                    }
                }
            }
        }
        long
    }

    fn apply_attacks(&mut self, id: u64, from_ep: usize, conn: Option<usize>, base: &InFlight) {
        let todo: Vec<Attack> = self.attacks.iter().filter(|a| a.on as u64 == id).cloned().collect();
        for a in todo {
            let mut c = base.clone();
            c.injected = true;
            c.copy = 100;
            c.at = base.at + a.delay_us as u64;
            match &a.kind {
                AttackKind::Replay { times } => {
                    for i in 0..*times as u64 {
                        let mut d = c.clone();
                        d.at += i * a.delay_us as u64;
                        self.attack_log.push((id, format!("replay copy {} at {}", i, d.at)));
                        self.push(d);
                    }
                    continue;
                }
                AttackKind::Corrupt(k) => {
                    k.apply(&mut c.bytes);
                    c.corrupted = true;
                    if c.bytes.is_empty() || c.bytes == base.bytes {
                        continue;
                    }
                    self.attack_log.push((id, format!("corrupt {k:?}")));
                }
                AttackKind::ResetSuffix(choice) => {
                    // victim = the connection that receives this datagram = peer of `conn`
                    let Some(sender) = conn else { continue };
                    let Some(victim) = self.conns[sender].peer.or_else(|| self.conns.iter().position(|o| o.peer == Some(sender))) else { continue };
                    let Some(cid) = self.dcid_in_use_by(victim) else { continue };
                    let mut token = self.reset_token_for(from_ep, &cid);
                    match choice {
                        TokenChoice::ExactCurrent => {}
                        TokenChoice::OtherCid(s) => {
                            let mut other = cid.clone();
                            other[0] ^= (*s as u8) | 1;
                            token = self.reset_token_for(from_ep, &other);
                        }
                        TokenChoice::NearMiss(bit) => token[(*bit as usize / 8) % 16] ^= 1 << (bit % 8),
                        TokenChoice::IssuedNotInUse(sel) => {
                            // tokens the victim has been given in NEW_CONNECTION_ID frames (readable under
                            // SimCrypto) for connection IDs other than the one it is sending to
                            let mut issued: Vec<[u8; 16]> = vec![];
                            for r in &self.trace {
                                if let Rec::Tx { conn: tc, dgrams, .. } = r {
                                    if *tc == sender {
                                        for fr in dgrams.iter().flat_map(|d| d.pkts.iter()).flat_map(|p| p.frames.iter().flatten()) {
                                            if let OF::NewConnectionId { cid: ncid, reset_token, .. } = fr {
                                                if *ncid != cid && !issued.contains(reset_token) {
                                                    issued.push(*reset_token);
                                                }
                                            }
                                        }
                                    }
                                }
                            }
                            if issued.is_empty() {
                                continue;
                            }
                            token = issued[(*sel as usize * issued.len()) >> 8];
                        }
                    }
                    if c.bytes.len() < 22 {
                        c.bytes.resize(40, 0x3c);
                    }
                    let n = c.bytes.len();
                    c.bytes[n - 16..].copy_from_slice(&token);
                    // make sure it cannot authenticate as a genuine packet: flip a payload bit
                    let i = (n / 2).min(n - 17).max(1);
                    c.bytes[i] ^= 0x10;
                    c.bytes[0] &= 0x7f; // short header form
                    c.bytes[0] |= 0x40;
                    c.corrupted = true;
                    self.attack_log.push((id, format!("reset-suffix {choice:?} victim {victim}")));
                }
                AttackKind::SpliceCid => {
                    let Some(sender) = conn else { continue };
                    // another connection of the same side
                    let other = self.conns.iter().position(|o| o.side == self.conns[sender].side && !std::ptr::eq(o, &self.conns[sender]) && !o.gone);
                    let Some(other) = other else { continue };
                    let (Some(mine), Some(theirs)) = (self.dcid_in_use_by(sender), self.dcid_in_use_by(other)) else { continue };
                    if mine.len() != theirs.len() || mine.is_empty() || c.bytes[0] & 0x80 != 0 || c.bytes.len() < 1 + mine.len() {
                        continue;
                    }
                    c.bytes[1..1 + theirs.len()].copy_from_slice(&theirs);
                    c.corrupted = true;
                    self.attack_log.push((id, format!("splice conn {sender} packet under conn {other} cid")));
                }
                AttackKind::FromOtherAddr { port_only } => {
                    c.from = if *port_only { SocketAddr::new(base.from.ip(), base.from.port() ^ 0x155) } else { addr_v6(0x66, 6666) };
                    self.attack_log.push((id, format!("copy from {}", c.from)));
                }
            }
            if c.bytes.len() >= 16 {
                let tail: Vec<u8> = c.bytes[c.bytes.len() - 16..].to_vec();
                self.attack_tails.push(tail);
            }
            self.push(c);
        }
    }

    pub fn push(&mut self, mut f: InFlight) {
        f.seq = self.seq;
        self.seq += 1;
        self.queue.push(f);
    }

    /// Inject a datagram from outside (attacker)
    pub fn inject(&mut self, at: u64, to: SocketAddr, from: SocketAddr, bytes: Vec<u8>) -> u64 {
        let id = self.next_dgram_id;
        self.next_dgram_id += 1;
        self.push(InFlight { at, seq: 0, to, from, ecn: None, bytes, dgram_id: id, origin_conn: None, copy: 0, corrupted: true, injected: true });
        id
    }

    fn handle_transmit(&mut self, k: usize, t: Transmit, buf: &[u8], max_dgrams: usize, before: Option<ProbeLite>) {
        let seg = t.segment_size.unwrap_or(t.size);
        let ep = self.conns[k].ep;
        let rcl = self.conns[k].remote_cid_len;
        let mut dgrams = vec![];
        for chunk in buf[..t.size].chunks(seg.max(1)) {
            if self.check_amp && self.conns[k].side.is_server() {
                let dst = t.destination;
                let (recvd, sent, validated) = {
                    let a = &self.conns[k].amp;
                    (a.recvd.get(&dst).copied().unwrap_or(0), a.sent.get(&dst).copied().unwrap_or(0), a.validated.get(&dst).copied().unwrap_or(false))
                };
                if !validated {
                    // documented allowance: one datagram may be completed once any budget remains
                    if sent + 1 > 3 * recvd {
                        let what: Vec<_> = self.observe_quiet(chunk, rcl).iter().map(|p| (p.ty, p.frames.clone())).collect();
                        self.viol.push(Viol {
                            sig: "c07/amplification".into(),
                            msg: format!(
                                "t={} server conn {k}: emits a {}-byte datagram to unvalidated {dst} after sending {sent} bytes although only {recvd} bytes were received from it (limit 3x = {}); packets: {what:?}",
                                self.now,
                                chunk.len(),
                                3 * recvd
                            ),
                        });
                    }
                    let a = &mut self.conns[k].amp;
                    let after = sent + chunk.len() as u64;
                    if recvd > 0 {
                        a.max_ratio_x100 = a.max_ratio_x100.max(after * 100 / recvd);
                    }
                    if after >= 3 * recvd {
                        a.was_at_limit = true;
                    } else if a.was_at_limit {
                        a.blocked_then_resumed += 1;
                        a.was_at_limit = false;
                    }
                }
                *self.conns[k].amp.sent.entry(dst).or_insert(0) += chunk.len() as u64;
            }
            let pkts = self.observe_dgram(Some(k), chunk, rcl);
            let rec = self.emit(ep, Some(k), t.destination, t.ecn, chunk.to_vec(), pkts);
            dgrams.push(rec);
        }
        if self.record {
            let after = if self.probe { Some(probe_lite(&self.conns[k].c)) } else { None };
            self.trace.push(Rec::Tx {
                t: self.now,
                conn: k,
                dst: t.destination,
                size: t.size,
                seg: t.segment_size,
                max_dgrams,
                ecn: t.ecn.is_some(),
                dgrams,
                before,
                after,
            });
        }
    }

    /// Poll everything a connection has to say at the current instant
    pub fn drive_conn(&mut self, k: usize) {
        let mut rounds = 0;
        loop {
            rounds += 1;
            if rounds > 5000 {
                self.viol.push(Viol { sig: "drive/no-quiescence".into(), msg: format!("connection {k} did not become quiescent at one instant after 5000 rounds") });
                return;
            }
            let mut progressed = false;
            // 1. transmits
            let mut n_tx = 0;
            loop {
                if self.conns[k].gone {
                    break;
                }
                let maxd = self.next_max_dgrams();
                let before = if self.probe { Some(probe_lite(&self.conns[k].c)) } else { None };
                let now = self.now_instant();
                let mut buf = Vec::new();
                match self.conns[k].c.poll_transmit(now, maxd, &mut buf) {
                    Some(t) => {
                        n_tx += 1;
                        progressed = true;
                        if t.size != buf.len() || t.size == 0 {
                            self.viol.push(Viol { sig: "drive/transmit-size".into(), msg: format!("Transmit.size {} but buffer holds {}", t.size, buf.len()) });
                        }
                        self.handle_transmit(k, t, &buf, maxd, before);
                        if n_tx > 2_000 {
                            self.viol.push(Viol { sig: "drive/transmit-loop".into(), msg: format!("connection {k} produced more than 2000 transmits at one instant (the pacer releases at most 256 datagrams per burst)") });
                            return;
                        }
                    }
                    None => break,
                }
            }
            // spurious extra calls
            if self.spec.drv.spurious_every != 0 && self.step % self.spec.drv.spurious_every as u64 == 0 && !self.conns[k].gone {
                self.stats.spurious_calls += 1;
                let now = self.now_instant();
                let due = self.conns[k].c.poll_timeout().is_some_and(|t| t <= now);
                if !due {
                    self.conns[k].c.handle_timeout(now);
                    if self.record {
                        self.trace.push(Rec::Timeout { t: self.now, conn: k, deadline: 0, spurious: true });
                    }
                    // extra polls right after poll_transmit returned None and a no-op timeout:
                    // each must return nothing
                    let mut buf = Vec::new();
                    if let Some(t) = self.conns[k].c.poll_transmit(now, 1, &mut buf) {
                        self.viol.push(Viol {
                            sig: "c20/extra-poll-transmit".into(),
                            msg: format!("conn {k}: poll_transmit returned a {}-byte transmit right after it had returned None and a handle_timeout with no timer due", t.size),
                        });
                    }
                }
            }
            // 2. timeout
            let to = self.conns[k].c.poll_timeout();
            let dl = to.map(|t| t.saturating_duration_since(self.epoch).as_nanos().div_ceil(1000).min(u64::MAX as u128 / 4) as u64);
            match (dl, self.conns[k].deadline) {
                (None, None) => {}
                (None, _) => {
                    self.conns[k].deadline = None;
                    if self.record {
                        self.trace.push(Rec::NextTimeout { t: self.now, conn: k, at: None });
                    }
                }
                (Some(d), Some((old, _))) if old == d => {}
                (Some(d), _) => {
                    let late = self.next_late();
                    self.conns[k].deadline = Some((d, d + late));
                    if self.record {
                        self.trace.push(Rec::NextTimeout { t: self.now, conn: k, at: Some(d) });
                    }
                }
            }
            // 3. endpoint events
            let mut evs = vec![];
            while let Some(e) = self.conns[k].c.poll_endpoint_events() {
                evs.push(e);
            }
            for e in evs {
                progressed = true;
                if e.is_drained() {
                    self.conns[k].drained_events += 1;
                    self.conns[k].drained_at.get_or_insert(self.now);
                    if self.record {
                        self.trace.push(Rec::Drained { t: self.now, conn: k });
                    }
                    if self.conns[k].drained_events > 1 {
                        self.viol.push(Viol { sig: "c08/drained-twice".into(), msg: format!("connection {k} emitted its Drained endpoint event {} times", self.conns[k].drained_events) });
                        continue;
                    }
                }
                let ep = self.conns[k].ep;
                let ch = self.conns[k].ch;
                let drained = e.is_drained();
                if let Some(ce) = self.eps[ep].ep.handle_event(ch, e) {
                    self.conns[k].c.handle_event(ce);
                }
                if drained {
                    // a drained connection produces no further output
                    let now = self.now_instant();
                    let cs = &mut self.conns[k];
                    cs.c.handle_timeout(now);
                    let mut buf = Vec::new();
                    let tx = cs.c.poll_transmit(now, 10, &mut buf).is_some();
                    let to = cs.c.poll_timeout().is_some();
                    let ee = cs.c.poll_endpoint_events().is_some();
                    if tx || to || ee {
                        self.viol.push(Viol {
                            sig: "c20/output-after-drained".into(),
                            msg: format!("conn {k} after Drained: poll_transmit some={tx}, poll_timeout some={to} (armed: {:?}), endpoint event some={ee}", self.conns[k].c.verif_probe().timers_armed),
                        });
                    }
                    self.conns[k].gone = true;
                    self.eps[ep].by_handle.remove(&ch.0);
                }
            }
            // 4. application events
            let t_rel = self.now - self.conns[k].started_us;
            let now = self.now_instant();
            let cs = &mut self.conns[k];
            while let Some(ev) = cs.c.poll() {
                progressed = true;
                if let quinn_proto::Event::ConnectionLost { .. } = &ev {
                    cs.lost_events += 1;
                    cs.lost_at.get_or_insert(self.now);
                } else if cs.lost_at.is_some() {
                    cs.events_after_lost.push(format!("{ev:?}"));
                }
                if self.record {
                    let s = format!("{ev:?}");
                    if let quinn_proto::Event::ConnectionLost { reason } = &ev {
                        self.trace.push(Rec::Lost { t: self.now, conn: k, reason: format!("{reason:?}") });
                    }
                    self.trace.push(Rec::Ev { t: self.now, conn: k, ev: s });
                }
                cs.app.on_event(&mut cs.c, ev);
            }
            let had_ops = cs.app.next_op_time().is_some_and(|t| t as u64 <= t_rel);
            if had_ops || cs.app.wants_turn {
                progressed |= had_ops;
                cs.app.turn(&mut cs.c, t_rel, now);
            }
            if !progressed {
                break;
            }
        }
        self.conns[k].dirty = false;
    }

    fn deliver(&mut self, f: InFlight) {
        if let Some(sink) = self.sinks.get_mut(&f.to) {
            sink.push((self.now, f.from, f.bytes));
            return;
        }
        let Some(ep) = self.ep_of_addr(&f.to) else {
            self.stats.no_endpoint += 1;
            if self.record {
                self.trace.push(Rec::Rx { t: self.now, ep: usize::MAX, from: f.from, dgram_id: f.dgram_id, origin_conn: f.origin_conn, size: f.bytes.len(), routed: Routed::NoEndpoint, copy: f.copy, corrupted: f.corrupted, injected: f.injected });
            }
            return;
        };
        let now = self.now_instant();
        let mut buf = Vec::new();
        let size = f.bytes.len();
        if f.injected && size >= 21 {
            let tail = &f.bytes[size - 16..];
            for k in 0..self.conns.len() {
                if self.conns[k].ep == ep && !self.conns[k].gone {
                    let rc = self.conns[k].c.verif_remote_cid();
                    if !rc.is_empty() && (0..self.eps.len()).any(|e| e != ep && self.reset_token_for(e, &rc)[..] == *tail) {
                        self.exact_reset_offered.insert(k);
                    }
                }
            }
        }
        self.cur_rx_dgram = f.dgram_id;
        let ev = self.eps[ep].ep.handle(now, f.from, None, f.ecn, BytesMut::from(&f.bytes[..]), &mut buf);
        let routed = match ev {
            Some(DatagramEvent::ConnectionEvent(ch, ce)) => match self.eps[ep].by_handle.get(&ch.0).copied() {
                Some(k) => {
                    // (with connection IDs of 1-3 bytes a value retired by one connection is soon issued to
                    // another, so a late packet legitimately lands at the new owner, which discards it)
                    let tiny_cids = (1..4).contains(&self.eps[ep].spec.cid_len);
                    if self.check_routing && !f.corrupted && !f.injected && !tiny_cids {
                        if let Some(o) = f.origin_conn {
                            // the emitter's peer, if it exists already; a client's handshake packets may
                            // only ever reach the connection created for it
                            let expected = self.conns[o].peer;
                            let wrong = match expected {
                                Some(e) => e != k,
                                None => self.conns[k].peer != Some(o),
                            };
                            if wrong {
                                // known pattern: the destination ID a stateless Retry told the client to use is
                                // drawn without looking at (or reserving it in) the routing table, so with short
                                // IDs the client's next Initial can carry an ID that belongs to a live connection
                                let rcl = self.eps[ep].spec.cid_len as usize;
                                let first = self.observe_quiet(&f.bytes, rcl).into_iter().next();
                                let post_retry = expected.is_none() && first.is_some_and(|p| p.ty == wire::PktType::Initial && p.token_len > 0);
                                self.viol.push(Viol {
                                    sig: if post_retry { "c09/misrouted/post-retry-initial-collides-with-issued-cid".into() } else { "c09/misrouted".into() },
                                    msg: format!("datagram {} emitted by connection {o} ({:?}, peer {:?}) from {} was handed to connection {k} ({:?}, peer {:?}) by endpoint {ep}", f.dgram_id, self.conns[o].side, expected, f.from, self.conns[k].side, self.conns[k].peer),
                                });
                            }
                        }
                    }
                    self.conns[k].last_rx_us = self.now;
                    if size >= 21 {
                        let rc = self.conns[k].c.verif_remote_cid();
                        let tail = &f.bytes[size - 16..];
                        if (0..self.eps.len()).any(|e| e != ep && self.reset_token_for(e, &rc)[..] == *tail) {
                            self.exact_reset_seen.insert(k);
                        }
                    }
                    let before = self.conns[k].c.stats().frame_rx.datagram;
                    let mut authed_before = 0;
                    if self.track_auth {
                        let p = self.conns[k].c.verif_probe();
                        authed_before = p.total_authed_packets;
                        let m = p.pto.iter().map(|d| d.as_micros() as u64).max().unwrap_or(0);
                        self.conns[k].max_pto_us = self.conns[k].max_pto_us.max(m);
                    }
                    self.conns[k].c.handle_event(ce);
                    if self.track_auth {
                        let p = self.conns[k].c.verif_probe();
                        let m = p.pto.iter().map(|d| d.as_micros() as u64).max().unwrap_or(0);
                        self.conns[k].max_pto_us = self.conns[k].max_pto_us.max(m);
                        if p.total_authed_packets > authed_before {
                            self.conns[k].last_auth_rx_us = Some(self.now);
                        }
                    }
                    self.conns[k].dirty = true;
                    if let Some(frames) = self.dgram_frames.get(&f.dgram_id) {
                        let after = self.conns[k].c.stats().frame_rx.datagram;
                        if std::env::var("QV_TRACE_DG").is_ok() {
                            eprintln!("DG t={} dgram {} copy {} corrupted {} injected {} -> conn {k}: frames {:?} rx before {before} after {after}", self.now, f.dgram_id, f.copy, f.corrupted, f.injected, frames);
                        }
                        // (a copy the attacker damaged behind its first packet still carries that packet intact:
                        // what counts is whether the connection processed all of the datagram's frames)
                        if after - before != frames.len() as u64 && after != before {
                            // only part of the frames was processed: the model cannot tell which
                            if let Some(l) = self.ledgers.get(self.conns[k].load_idx) {
                                l.borrow_mut().dg_model_enabled = false;
                            }
                        }
                        if after - before == frames.len() as u64 {
                            let cs = &self.conns[k];
                            let cap = if cs.side.is_client() { self.spec.client_tc.dgram_recv } else { self.spec.server_tc.dgram_recv };
                            if let (Some(cap), Some(l)) = (cap, self.ledgers.get(cs.load_idx)) {
                                let mut l = l.borrow_mut();
                                for (id, len) in frames {
                                    l.dg_arrived(cs.side.is_server() as usize, *id, *len, cap as usize);
                                }
                            }
                        }
                    }
                    Routed::Conn(k)
                }
                None => {
                    self.viol.push(Viol { sig: "c09/unknown-handle".into(), msg: format!("Endpoint::handle returned an event for handle {} which belongs to no live connection", ch.0) });
                    Routed::Nothing
                }
            },
            Some(DatagramEvent::NewConnection(inc)) => {
                self.on_incoming(ep, inc, size as u64);
                Routed::NewIncoming
            }
            Some(DatagramEvent::Response(t)) => {
                self.stats.stateless += 1;
                let bytes = buf[..t.size].to_vec();
                let pkts = self.observe_dgram(None, &bytes, 0);
                let dg = self.emit(ep, None, t.destination, t.ecn, bytes, pkts);
                if self.record {
                    self.trace.push(Rec::TxEp { t: self.now, ep, dst: t.destination, size: t.size, inciting_size: size, dgram: dg });
                }
                Routed::Response(t.size)
            }
            None => {
                // possibly buffered for an Incoming that is being held
                if self.eps[ep].pending_incoming.iter().any(|(_, i, _)| i.remote_address() == f.from) {
                    *self.eps[ep].pending_bytes.entry(f.from).or_insert(0) += size as u64;
                }
                Routed::Nothing
            }
        };
        if let Routed::Conn(k) = routed {
            if self.conns[k].side.is_server() {
                *self.conns[k].amp.recvd.entry(f.from).or_insert(0) += size as u64;
                // validation evidence: a genuine Handshake packet, or a PATH_RESPONSE, from that address
                if !f.corrupted {
                    let rcl = self.eps[ep].spec.cid_len as usize;
                    let pk = self.observe_quiet(&f.bytes, rcl);
                    if pk.iter().any(|p| p.ty == wire::PktType::Handshake || p.has(|x| matches!(x, OF::PathResponse(_)))) {
                        self.conns[k].amp.validated.insert(f.from, true);
                    }
                }
            }
        }
        if self.record {
            self.trace.push(Rec::Rx { t: self.now, ep, from: f.from, dgram_id: f.dgram_id, origin_conn: f.origin_conn, size, routed, copy: f.copy, corrupted: f.corrupted, injected: f.injected });
        }
    }

    fn on_incoming(&mut self, ep: usize, inc: Incoming, size: u64) {
        let srv = self.spec.srv.clone();
        let will_retry = srv.retry && !inc.remote_address_validated() && inc.may_retry();
        self.incoming_log.push(IncomingRec {
            t: self.now,
            ep,
            dgram_id: self.cur_rx_dgram,
            from: inc.remote_address(),
            validated: inc.remote_address_validated(),
            may_retry: inc.may_retry(),
            odcid: inc.orig_dst_cid().to_vec(),
            action: if self.incoming_ignore {
                "ignore"
            } else if will_retry {
                "retry"
            } else if srv.accept_delay_us > 0 {
                "hold"
            } else {
                "accept"
            },
        });
        if self.incoming_ignore {
            self.eps[ep].ep.ignore(inc);
            return;
        }
        if srv.retry && !inc.remote_address_validated() && inc.may_retry() {
            let mut buf = Vec::new();
            match self.eps[ep].ep.retry(inc, &mut buf) {
                Ok(t) => {
                    self.stats.retries_sent += 1;
                    let bytes = buf[..t.size].to_vec();
                    let pkts = self.observe_dgram(None, &bytes, 0);
                    let dg = self.emit(ep, None, t.destination, t.ecn, bytes, pkts);
                    if self.record {
                        self.trace.push(Rec::TxEp { t: self.now, ep, dst: t.destination, size: t.size, inciting_size: 0, dgram: dg });
                    }
                }
                Err(e) => {
                    let inc = e.into_incoming();
                    let t = self.now;
                    self.accept(ep, inc, t, size);
                }
            }
            return;
        }
        let nth = self.incoming_seen;
        self.incoming_seen += 1;
        if let Some((_, hold)) = self.stale_accepts.iter().find(|(n, _)| *n == nth).copied() {
            let at = self.now + hold.max(2000) as u64;
            self.stale_due.push(inc.orig_dst_cid().to_vec());
            self.eps[ep].pending_incoming.push((at, inc, size));
            return;
        }
        if srv.accept_delay_us > 0 {
            let at = self.now + srv.accept_delay_us as u64;
            self.eps[ep].pending_incoming.push((at, inc, size));
            return;
        }
        let t = self.now;
        self.accept(ep, inc, t, size);
    }

    fn accept(&mut self, ep: usize, inc: Incoming, recv_at: u64, first_size: u64) {
        let odcid = inc.orig_dst_cid().to_vec();
        let remote = inc.remote_address();
        let token_validated = inc.remote_address_validated();
        let mut amp = AmpLedger::default();
        let first = first_size;
        let held = self.eps[ep].pending_bytes.remove(&remote).unwrap_or(0);
        amp.recvd.insert(remote, first + held);
        if token_validated {
            amp.validated.insert(remote, true);
        }
        let now = self.now_instant();
        let mut buf = Vec::new();
        // transport config with a fresh cc log for this connection
        let cc_log = Arc::new(Mutex::new(CcLog::default()));
        let mut sc = self.server_config();
        let mut tc_spec = self.spec.server_tc.clone();
        let stale = self.stale_due.iter().position(|a| *a == odcid).map(|i| self.stale_due.remove(i)).is_some();
        if stale {
            // an application that kept the Incoming waiting for longer than its idle timeout
            tc_spec.idle_ms = Some(1);
        }
        sc.transport_config(Arc::new(build_tc(&tc_spec, Some(cc_log.clone()))));
        match self.eps[ep].ep.accept(inc, now, &mut buf, Some(Arc::new(sc))) {
            Ok((ch, c)) => {
                // pair with the client connection whose initial DCID this is
                let (load_idx, peer) = self.pair_for(&odcid);
                let load = self.loads.get(load_idx).cloned().unwrap_or(ConnLoad { client: SideLoad::default(), server: SideLoad::default() });
                let ledger = self.ledgers.get(load_idx).cloned().unwrap_or_else(|| Rc::new(RefCell::new(Ledger::default())));
                let key = crate::core::mix(self.spec.seed, (load_idx as u64).wrapping_add(0xc0));
                let mut app = App::new(Side::Server, key, load.server.clone(), load.client.clone(), ledger);
                app.dgram_cfg = (self.spec.server_tc.dgram_recv.map(|x| x as usize), self.spec.server_tc.dgram_send as usize);
                app.peer_dgram_recv = self.spec.client_tc.dgram_recv.map(|x| (x as usize).min(65535));
                if self.manual_apps_for_sinks && self.sinks.contains_key(&remote) {
                    app.manual = true;
                }
                let k = self.conns.len();
                self.eps[ep].by_handle.insert(ch.0, k);
                self.conns.push(ConnState {
                    ep,
                    ch,
                    c,
                    app,
                    side: Side::Server,
                    peer,
                    load_idx,
                    gone: false,
                    drained_events: 0,
                    deadline: None,
                    started_us: peer.map_or(self.now, |p| self.conns[p].started_us),
                    created_us: self.now,
                    largest_pn_seen: [None; 3],
                    cc_log,
                    dirty: true,
                    remote_cid_len: self.spec.client_ep.cid_len as usize,
                    last_rx_us: self.now,
                    last_service_at: u64::MAX,
                    services_at_instant: 0,
                    lost_at: None,
                    drained_at: None,
                    lost_events: 0,
                    events_after_lost: vec![],
                    closed_at: None,
                    last_auth_rx_us: Some(recv_at),
                    max_pto_us: 0,
                    amp,
                });
                if let Some(p) = peer {
                    self.conns[p].peer = Some(k);
                }
            }
            Err(e) => {
                if stale && matches!(e.cause, quinn_proto::ConnectionError::TimedOut) {
                    self.stale_abandoned += 1;
                }
                if let Some(t) = e.response {
                    let bytes = buf[..t.size].to_vec();
                    let pkts = self.observe_dgram(None, &bytes, 0);
                    let dg = self.emit(ep, None, t.destination, t.ecn, bytes, pkts);
                    if self.record {
                        self.trace.push(Rec::TxEp { t: self.now, ep, dst: t.destination, size: t.size, inciting_size: 0, dgram: dg });
                    }
                }
            }
        }
    }

    /// Find (load index, client connection) for a server connection by the client's original DCID.
    /// The n-th DCID handed out by the provider belongs to the n-th `connect` call.
    fn pair_for(&self, odcid: &[u8]) -> (usize, Option<usize>) {
        let total = self.dcid_ctr.load(Ordering::Relaxed);
        for n in 0..total {
            let a = crate::core::mix(self.spec.seed ^ 0xdc1d, n);
            let b = crate::core::mix(a, 1);
            let mut v = a.to_le_bytes().to_vec();
            v.extend_from_slice(&b.to_le_bytes());
            let len = (8 + (a % 13) as usize).min(16);
            if &v[..len] == odcid {
                // n-th client connection
                let mut i = 0;
                for (k, c) in self.conns.iter().enumerate() {
                    if c.side == Side::Client {
                        if i == n {
                            return (c.load_idx, Some(k));
                        }
                        i += 1;
                    }
                }
            }
        }
        (usize::MAX, None)
    }

    /// Time of the next scheduled thing, if any
    fn next_time(&self) -> Option<u64> {
        let mut t: Option<u64> = self.queue.peek().map(|f| f.at);
        let mut upd = |x: u64| {
            t = Some(t.map_or(x, |y| y.min(x)));
        };
        for c in &self.conns {
            if c.gone {
                continue;
            }
            if let Some((_, svc)) = c.deadline {
                upd(svc);
            }
            if let Some(o) = c.app.next_op_time() {
                upd(c.started_us + o as u64);
            }
            if c.app.wants_turn {
                upd(self.now + 1000);
            }
        }
        for e in &self.eps {
            for (at, _, _) in &e.pending_incoming {
                upd(*at);
            }
        }
        t
    }

    /// Run until `until_us`, quiescence, or `stop` returns true. Returns false if the step bound hit.
    pub fn run(&mut self, until_us: u64, mut stop: impl FnMut(&World) -> bool) -> bool {
        loop {
            self.step += 1;
            if self.step > self.step_limit {
                self.hit_step_limit = true;
                return false;
            }
            // drive everything dirty at this instant
            for k in 0..self.conns.len() {
                if !self.conns[k].gone && !self.viol.iter().any(|v| v.sig.starts_with("drive/")) {
                    self.drive_conn(k);
                }
            }
            // conns created during driving (accept) need a drive too
            let mut again = true;
            let mut guard = 0;
            while again {
                again = false;
                guard += 1;
                for k in 0..self.conns.len() {
                    if self.conns[k].dirty && !self.conns[k].gone {
                        self.drive_conn(k);
                        again = true;
                    }
                }
                if guard > 1000 || self.viol.iter().any(|v| v.sig.starts_with("drive/")) {
                    break;
                }
            }
            if !self.viol.is_empty() {
                return true;
            }
            if stop(self) {
                return true;
            }
            let Some(t) = self.next_time() else { return true };
            if t > until_us {
                self.now = until_us.max(self.now);
                self.clock.0.store(self.now, Ordering::Relaxed);
                return true;
            }
            if t > self.now {
                self.now = t;
                self.clock.0.store(self.now, Ordering::Relaxed);
            }
            // pending accepts
            for ep in 0..self.eps.len() {
                let due: Vec<usize> = self.eps[ep].pending_incoming.iter().enumerate().filter(|(_, (at, _, _))| *at <= self.now).map(|(i, _)| i).collect();
                for i in due.into_iter().rev() {
                    let (at, inc, size) = self.eps[ep].pending_incoming.remove(i);
                    let recv_at = at.saturating_sub(self.spec.srv.accept_delay_us as u64);
                    self.accept(ep, inc, recv_at, size);
                }
            }
            let timeouts_first = self.spec.drv.timeout_first;
            if timeouts_first {
                self.service_timeouts();
            }
            while self.queue.peek().is_some_and(|f| f.at <= self.now) {
                let f = self.queue.pop().unwrap();
                self.deliver(f);
            }
            if !timeouts_first {
                self.service_timeouts();
            }
        }
    }

    fn service_timeouts(&mut self) {
        for k in 0..self.conns.len() {
            if self.conns[k].gone {
                continue;
            }
            if let Some((d, svc)) = self.conns[k].deadline {
                if svc <= self.now {
                    let now = self.now_instant();
                    self.stats.timeouts += 1;
                    if self.conns[k].last_service_at == self.now {
                        self.conns[k].services_at_instant += 1;
                        if self.conns[k].services_at_instant > 200 {
                            self.viol.push(Viol {
                                sig: "c20/timeouts-do-not-converge".into(),
                                msg: {
                                    let p = self.conns[k].c.verif_probe();
                                    format!(
                                        "conn {k}: handle_timeout was needed {} times at instant {} us and poll_timeout() is still not in the future (deadline {d} us; timers armed {:?}; state {}, in flight {} / window {}, pto_count {}, sent_packets {:?}, loss_probes {:?})",
                                        self.conns[k].services_at_instant, self.now, p.timers_armed, p.state, p.bytes_in_flight, p.congestion_window, p.pto_count, p.sent_packets, p.loss_probes
                                    )
                                },
                            });
                            self.conns[k].deadline = None;
                            continue;
                        }
                    } else {
                        self.conns[k].last_service_at = self.now;
                        self.conns[k].services_at_instant = 1;
                    }
                    let late = self.now.saturating_sub(d);
                    self.lateness_total += late;
                    self.max_lateness = self.max_lateness.max(late);
                    self.conns[k].c.handle_timeout(now);
                    self.conns[k].deadline = None;
                    self.conns[k].dirty = true;
                    if self.record {
                        self.trace.push(Rec::Timeout { t: self.now, conn: k, deadline: d, spurious: false });
                    }
                }
            }
        }
    }

    // ---- manual stepping (C11): the check, not the App, owns the connections after the handshake ----

    /// Move the virtual clock forward by `dt_us` and service every connection timer that is due
    /// (no transmit polling, no application involvement).
    pub fn manual_advance(&mut self, dt_us: u64) {
        self.now += dt_us;
        self.clock.0.store(self.now, Ordering::Relaxed);
        let now = self.now_instant();
        for k in 0..self.conns.len() {
            if self.conns[k].gone {
                continue;
            }
            let mut guard = 0;
            while self.conns[k].c.poll_timeout().is_some_and(|t| t <= now) && guard < 64 {
                self.conns[k].c.handle_timeout(now);
                self.stats.timeouts += 1;
                guard += 1;
            }
        }
    }

    /// Emit everything connection `k` wants to transmit at the current instant onto the link
    /// (observer decoding and trace recording as usual), relay its endpoint events, and leave its
    /// application events unpolled. Returns the number of UDP datagrams put on the link.
    pub fn manual_flush(&mut self, k: usize) -> usize {
        let before = self.stats.dgrams_sent;
        let mut n_tx = 0;
        loop {
            let maxd = self.next_max_dgrams();
            let now = self.now_instant();
            let mut buf = Vec::new();
            match self.conns[k].c.poll_transmit(now, maxd, &mut buf) {
                Some(t) => {
                    n_tx += 1;
                    self.handle_transmit(k, t, &buf, maxd, None);
                    if n_tx > 2_000 {
                        self.viol.push(Viol { sig: "drive/transmit-loop".into(), msg: format!("connection {k} produced more than 2000 transmits at one instant") });
                        break;
                    }
                }
                None => break,
            }
        }
        self.manual_endpoint_events(k);
        (self.stats.dgrams_sent - before) as usize
    }

    /// Relay pending endpoint events of connection `k` to its endpoint and back
    pub fn manual_endpoint_events(&mut self, k: usize) {
        while let Some(e) = self.conns[k].c.poll_endpoint_events() {
            let ep = self.conns[k].ep;
            let ch = self.conns[k].ch;
            if let Some(ce) = self.eps[ep].ep.handle_event(ch, e) {
                self.conns[k].c.handle_event(ce);
            }
        }
    }

    /// Deliver, in emission order and regardless of their scheduled arrival time, every datagram on
    /// the link that is addressed to endpoint `ep`. Returns the ids of the datagrams delivered.
    pub fn manual_deliver_to(&mut self, ep: usize) -> Vec<u64> {
        let mut mine = vec![];
        let mut rest = vec![];
        for f in std::mem::take(&mut self.queue).into_vec() {
            if self.eps[ep].addrs.contains(&f.to) {
                mine.push(f);
            } else {
                rest.push(f);
            }
        }
        self.queue = rest.into();
        mine.sort_by_key(|f| f.seq);
        let mut ids = vec![];
        for f in mine {
            ids.push(f.dgram_id);
            self.deliver(f);
        }
        for k in 0..self.conns.len() {
            if self.conns[k].ep == ep && !self.conns[k].gone {
                self.manual_endpoint_events(k);
            }
        }
        ids
    }

    pub fn collect_violations(&mut self) -> Vec<Viol> {
        let mut v = std::mem::take(&mut self.viol);
        for l in &self.ledgers {
            v.extend(l.borrow_mut().viol.drain(..));
        }
        v
    }

    /// Stateless reset token an endpoint of this world issues for `cid` (SimHmac reset key)
    pub fn reset_token_for(&self, ep: usize, cid: &[u8]) -> [u8; 16] {
        use quinn_proto::crypto::HmacKey;
        let key = SimHmac(crate::core::mix(crate::core::mix(self.spec.seed, ep as u64), 0xe9));
        let mut sig = [0u8; 32];
        key.sign(cid, &mut sig);
        sig[..16].try_into().unwrap()
    }

    /// Human-readable dump of (part of) the trace for failure messages (only when QV_TRACE is set)
    pub fn dump_trace(&self, from: usize, max: usize) -> String {
        if std::env::var("QV_TRACE").is_err() {
            return String::new();
        }
        let mut s = String::from("trace:\n");
        for rec in self.trace.iter().skip(from).take(max) {
            let t = format!("{rec:?}");
            s += &format!("   {}\n", &t[..t.len().min(600)]);
        }
        s
    }

    pub fn faults_exhausted(&self) -> bool {
        self.fault_i[0] >= self.spec.faults_c2s.len() && self.fault_i[1] >= self.spec.faults_s2c.len()
    }
}
