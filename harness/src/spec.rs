//! Scenario value types (serialisable, shrinkable) and their proptest strategies, plus the
//! translation of configuration specs into quinn configuration objects.

use proptest::prelude::*;
use serde::{Deserialize, Serialize};

#[derive(Clone, Debug, Serialize, Deserialize, PartialEq)]
pub enum CcSpec {
    Cubic,
    NewReno,
    Bbr,
    /// Harness controller: window (in units of the current MTU, always >= 2) cycles through the list
    /// at every call
    Scripted(Vec<u16>),
}

#[derive(Clone, Debug, Serialize, Deserialize, PartialEq)]
pub struct MtudSpec {
    pub upper: u16,
    pub interval_ms: u32,
    pub cooldown_ms: u32,
    pub min_change: u16,
}

#[derive(Clone, Debug, Serialize, Deserialize, PartialEq)]
pub struct AfSpec {
    pub threshold: u32,
    pub max_ack_delay_ms: Option<u16>,
    pub reordering: u32,
}

/// Per-side transport configuration
#[derive(Clone, Debug, Serialize, Deserialize, PartialEq)]
pub struct TcSpec {
    pub recv_window: u64,
    pub stream_recv_window: u64,
    pub send_window: u64,
    pub max_bidi: u64,
    pub max_uni: u64,
    pub initial_mtu: u16,
    pub min_mtu: u16,
    pub mtud: Option<MtudSpec>,
    pub pad_to_mtu: bool,
    pub gso: bool,
    pub cc: CcSpec,
    pub pacing_bps: Option<u64>,
    pub ack_freq: Option<AfSpec>,
    pub packet_threshold: u32,
    /// time_threshold = 1 + x/8
    pub time_threshold_x8: u8,
    pub keep_alive_ms: Option<u32>,
    pub idle_ms: Option<u32>,
    pub dgram_recv: Option<u32>,
    pub dgram_send: u32,
    pub send_fairness: bool,
    pub initial_rtt_ms: u16,
    pub crypto_buffer: u32,
    pub persistent_congestion_threshold: u8,
}

impl Default for TcSpec {
    fn default() -> Self {
        Self {
            recv_window: (1 << 62) - 1,
            stream_recv_window: 1_250_000,
            send_window: 10_000_000,
            max_bidi: 100,
            max_uni: 100,
            initial_mtu: 1200,
            min_mtu: 1200,
            mtud: Some(MtudSpec { upper: 1452, interval_ms: 600_000, cooldown_ms: 60_000, min_change: 20 }),
            pad_to_mtu: false,
            gso: true,
            cc: CcSpec::Cubic,
            pacing_bps: None,
            ack_freq: None,
            packet_threshold: 3,
            time_threshold_x8: 1,
            keep_alive_ms: None,
            idle_ms: Some(30_000),
            dgram_recv: Some(1_250_000),
            dgram_send: 1024 * 1024,
            send_fairness: true,
            initial_rtt_ms: 333,
            crypto_buffer: 16 * 1024,
            persistent_congestion_threshold: 3,
        }
    }
}

#[derive(Clone, Debug, Serialize, Deserialize, PartialEq)]
pub enum CidKind {
    /// Harness generator seeded from the scenario
    Seeded,
    Random,
    Hashed,
}

#[derive(Clone, Debug, Serialize, Deserialize, PartialEq)]
pub struct EpSpec {
    pub cid_kind: CidKind,
    pub cid_len: u8,
    pub cid_lifetime_ms: Option<u32>,
    pub grease: bool,
    pub min_reset_interval_ms: u16,
    pub max_udp_payload: u16,
    pub allow_mtud: bool,
}

impl Default for EpSpec {
    fn default() -> Self {
        Self {
            cid_kind: CidKind::Seeded,
            cid_len: 8,
            cid_lifetime_ms: None,
            grease: true,
            min_reset_interval_ms: 20,
            max_udp_payload: 1472,
            allow_mtud: true,
        }
    }
}

#[derive(Clone, Debug, Serialize, Deserialize, PartialEq)]
pub enum CryptoKind {
    Sim,
    Rustls,
}

#[derive(Clone, Debug, Serialize, Deserialize, PartialEq)]
pub struct SrvSpec {
    /// Answer unvalidated Incoming with Retry
    pub retry: bool,
    pub migration: bool,
    /// Hold each Incoming this long (virtual µs) before accepting it
    pub accept_delay_us: u32,
    pub flight_pad: u16,
    pub accept_0rtt: bool,
    pub incoming_buffer: u32,
    /// NEW_TOKEN frames sent per connection
    pub tokens_sent: u8,
    /// Retry token lifetime (ms)
    #[serde(default = "default_retry_lifetime")]
    pub retry_token_lifetime_ms: u32,
}

fn default_retry_lifetime() -> u32 {
    15_000
}

impl Default for SrvSpec {
    fn default() -> Self {
        Self {
            retry: false,
            migration: true,
            accept_delay_us: 0,
            flight_pad: 0,
            accept_0rtt: false,
            incoming_buffer: 10 << 20,
            tokens_sent: 0,
            retry_token_lifetime_ms: 15_000,
        }
    }
}

/// One verdict of the link for one datagram, consumed in emission order per direction
#[derive(Clone, Debug, Serialize, Deserialize, PartialEq)]
pub enum Fault {
    Deliver,
    Drop,
    /// Deliver the original plus `n` copies, copy i delayed by `gap_us * (i+1)`
    Dup { n: u8, gap_us: u32 },
    /// Extra delay (causes reordering)
    Delay { us: u32 },
    /// Deliver a corrupted version only
    Corrupt(Corruption),
    /// Deliver the original and additionally a corrupted copy
    CorruptCopy(Corruption),
    /// Rewrite ECN bits: 0 none, 1 Ect1, 2 Ect0, 3 Ce
    Ecn(u8),
}

#[derive(Clone, Debug, Serialize, Deserialize, PartialEq)]
pub enum Corruption {
    /// Flip bit `bit` of byte at position `pos * len >> 16`
    Flip { pos: u16, bit: u8 },
    FlipMany { seed: u16, n: u8 },
    Truncate { keep: u16 },
    Extend { n: u8, byte: u8 },
}

impl Corruption {
    pub fn apply(&self, d: &mut Vec<u8>) {
        if d.is_empty() {
            return;
        }
        match *self {
            Corruption::Flip { pos, bit } => {
                let i = (pos as usize * d.len()) >> 16;
                d[i] ^= 1 << (bit & 7);
            }
            Corruption::FlipMany { seed, n } => {
                let mut s = seed as u64 + 1;
                for _ in 0..n.max(1) {
                    s = crate::core::mix(s, 0x51);
                    let i = (s as usize >> 8) % d.len();
                    d[i] ^= 1 << (s & 7);
                }
            }
            Corruption::Truncate { keep } => {
                let k = (keep as usize * d.len()) >> 16;
                d.truncate(k);
            }
            Corruption::Extend { n, byte } => {
                d.extend(std::iter::repeat(byte).take(n as usize + 1));
            }
        }
    }
}

pub fn arb_corruption() -> impl Strategy<Value = Corruption> {
    prop_oneof![
        4 => (any::<u16>(), 0u8..8).prop_map(|(pos, bit)| Corruption::Flip { pos, bit }),
        1 => (any::<u16>(), 1u8..9).prop_map(|(seed, n)| Corruption::FlipMany { seed, n }),
        2 => any::<u16>().prop_map(|keep| Corruption::Truncate { keep }),
        1 => (0u8..40, any::<u8>()).prop_map(|(n, byte)| Corruption::Extend { n, byte }),
    ]
}

/// Fault list with configurable intensity: `loss` is per-mille weight of non-Deliver verdicts
pub fn arb_faults(max_len: usize, corrupt: bool) -> impl Strategy<Value = Vec<Fault>> {
    let base = prop_oneof![
        10 => Just(Fault::Deliver),
        4 => Just(Fault::Drop),
        2 => (1u8..3, 0u32..30_000).prop_map(|(n, gap_us)| Fault::Dup { n, gap_us }),
        3 => (1u32..80_000).prop_map(|us| Fault::Delay { us }),
        1 => (0u8..4).prop_map(Fault::Ecn),
    ];
    let fault = if corrupt {
        prop_oneof![
            10 => base,
            1 => arb_corruption().prop_map(Fault::Corrupt),
            1 => arb_corruption().prop_map(Fault::CorruptCopy),
        ]
        .boxed()
    } else {
        base.boxed()
    };
    prop::collection::vec(fault, 0..max_len)
}

/// How the sans-IO contract is exercised
#[derive(Clone, Debug, Serialize, Deserialize, PartialEq)]
pub struct DrvSpec {
    /// max_datagrams per poll_transmit, cycled
    pub max_dgrams: Vec<u8>,
    /// lateness (µs) of each timer service, cycled; 0 = exact
    pub late_us: Vec<u32>,
    /// every n-th step insert spurious handle_timeout/poll_transmit/poll calls (0 = never)
    pub spurious_every: u8,
    /// relay endpoint events immediately (false) or batched after all polls (true)
    pub batch_endpoint_events: bool,
    /// handle_timeout before handle_event when both are due at the same instant
    pub timeout_first: bool,
}

impl Default for DrvSpec {
    fn default() -> Self {
        Self { max_dgrams: vec![10], late_us: vec![0], spurious_every: 0, batch_endpoint_events: false, timeout_first: false }
    }
}

pub fn arb_drv() -> impl Strategy<Value = DrvSpec> {
    (
        prop::collection::vec(1u8..=10, 1..4),
        prop::collection::vec(prop_oneof![3 => Just(0u32), 1 => 1u32..5_000, 1 => 1u32..200_000], 1..4),
        prop_oneof![3 => Just(0u8), 1 => 1u8..6],
        any::<bool>(),
        any::<bool>(),
    )
        .prop_map(|(max_dgrams, late_us, spurious_every, batch_endpoint_events, timeout_first)| DrvSpec {
            max_dgrams,
            late_us,
            spurious_every,
            batch_endpoint_events,
            timeout_first,
        })
}

fn arb_window() -> impl Strategy<Value = u64> {
    prop_oneof![
        3 => Just((1u64 << 62) - 1),
        3 => Just(1_250_000u64),
        2 => 1u64..3000,
        2 => 3000u64..100_000,
        1 => prop_oneof![Just(63u64), Just(64), Just(16383), Just(16384), Just((1 << 30) - 1), Just(1 << 30)],
    ]
}

pub fn arb_cc() -> impl Strategy<Value = CcSpec> {
    prop_oneof![
        3 => Just(CcSpec::Cubic),
        3 => Just(CcSpec::NewReno),
        2 => Just(CcSpec::Bbr),
        2 => prop::collection::vec(prop_oneof![3 => 2u16..6, 1 => 6u16..200], 1..6).prop_map(CcSpec::Scripted),
    ]
}

pub fn arb_mtud() -> impl Strategy<Value = Option<MtudSpec>> {
    prop_oneof![
        1 => Just(None),
        3 => (1200u16..=9000, prop_oneof![Just(600_000u32), 100u32..5000], prop_oneof![Just(60_000u32), 100u32..5000], 1u16..200)
            .prop_map(|(upper, interval_ms, cooldown_ms, min_change)| Some(MtudSpec { upper, interval_ms, cooldown_ms, min_change })),
    ]
}

/// Transport configuration over everything the setters accept that keeps a transfer feasible.
/// `idle` controls whether idle timeouts shorter than 30 s may be generated.
pub fn arb_tc() -> impl Strategy<Value = TcSpec> {
    let windows = (arb_window(), arb_window(), prop_oneof![3 => Just(10_000_000u64), 2 => 1u64..5000, 1 => 5000u64..200_000]);
    let streams = (prop_oneof![3 => Just(100u64), 2 => 0u64..4, 1 => 4u64..20], prop_oneof![3 => Just(100u64), 2 => 0u64..4, 1 => 4u64..20]);
    let mtu = (1200u16..=1500, any::<bool>(), arb_mtud(), any::<bool>(), any::<bool>()).prop_map(|(init, min_is_init, mtud, pad, gso)| {
        (init, if min_is_init { init } else { 1200 }, mtud, pad, gso)
    });
    let cc = (arb_cc(), prop_oneof![4 => Just(None), 1 => (2_000u64..2_000_000).prop_map(Some)]);
    let af = prop_oneof![
        3 => Just(None),
        1 => (0u32..12, prop_oneof![Just(None), (1u16..200).prop_map(Some)], 0u32..6)
            .prop_map(|(threshold, max_ack_delay_ms, reordering)| Some(AfSpec { threshold, max_ack_delay_ms, reordering })),
    ];
    let loss = (prop_oneof![3 => Just(3u32), 1 => 3u32..12], prop_oneof![3 => Just(1u8), 1 => 1u8..16]);
    let misc = (
        prop_oneof![3 => Just(None), 1 => (50u32..20_000).prop_map(Some)],
        prop_oneof![2 => Just(Some(1_250_000u32)), 1 => Just(None), 1 => (0u32..5000).prop_map(Some)],
        prop_oneof![2 => Just(1u32 << 20), 1 => 0u32..5000],
        any::<bool>(),
        prop_oneof![2 => Just(333u16), 1 => 1u16..500],
    );
    (windows, streams, mtu, cc, af, loss, misc).prop_map(
        |((recv_window, stream_recv_window, send_window), (max_bidi, max_uni), (initial_mtu, min_mtu, mtud, pad_to_mtu, gso), (cc, pacing_bps), ack_freq, (packet_threshold, time_threshold_x8), (keep_alive_ms, dgram_recv, dgram_send, send_fairness, initial_rtt_ms))| TcSpec {
            recv_window,
            stream_recv_window,
            send_window,
            max_bidi,
            max_uni,
            initial_mtu,
            min_mtu,
            mtud,
            pad_to_mtu,
            gso,
            cc,
            pacing_bps,
            ack_freq,
            packet_threshold,
            time_threshold_x8,
            keep_alive_ms,
            idle_ms: None,
            dgram_recv,
            dgram_send,
            send_fairness,
            initial_rtt_ms,
            crypto_buffer: 16 * 1024,
            persistent_congestion_threshold: 3,
        },
    )
}

pub fn arb_ep() -> impl Strategy<Value = EpSpec> {
    (
        prop_oneof![4 => Just(CidKind::Seeded), 1 => Just(CidKind::Random), 1 => Just(CidKind::Hashed)],
        prop_oneof![3 => Just(8u8), 1 => Just(0u8), 2 => 4u8..=20],
        prop_oneof![4 => Just(None), 1 => (20u32..5000).prop_map(Some)],
        any::<bool>(),
        prop_oneof![3 => Just(1472u16), 1 => 1200u16..=9000],
    )
        .prop_map(|(cid_kind, cid_len, cid_lifetime_ms, grease, max_udp_payload)| EpSpec {
            cid_len: if cid_kind == CidKind::Hashed { 8 } else { cid_len },
            cid_kind,
            cid_lifetime_ms,
            grease,
            min_reset_interval_ms: 20,
            max_udp_payload,
            allow_mtud: true,
        })
}

// ---------------------------------------------------------------------------------------------
// Workload
// ---------------------------------------------------------------------------------------------

#[derive(Clone, Debug, Serialize, Deserialize, PartialEq)]
pub enum EndSpec {
    Finish,
    /// Reset with this code after `after` bytes (scaled into the total) were written
    Reset { code: u32, after: u16 },
    /// Never finish
    Leave,
}

#[derive(Clone, Debug, Serialize, Deserialize, PartialEq)]
pub struct ReaderSpec {
    pub ordered: bool,
    /// Switch to unordered reads after this many bytes (only if `ordered`)
    pub switch_unordered_after: Option<u32>,
    pub max_len: u32,
    /// At most this many chunks per application turn (0 = drain)
    pub chunks_per_turn: u8,
    /// stop(code) once at least this many bytes were read
    pub stop: Option<(u32, u32)>,
}

#[derive(Clone, Debug, Serialize, Deserialize, PartialEq)]
pub struct StreamSpec {
    pub bidi: bool,
    pub total: u32,
    /// Write chunk sizes, cycled
    pub chunks: Vec<u32>,
    /// Use write_chunks instead of write
    pub use_write_chunks: bool,
    pub end: EndSpec,
    pub reader: ReaderSpec,
    /// For bidirectional streams: the response sent by the acceptor
    pub resp_total: u32,
    pub resp_reader_ordered: bool,
    pub priority: i8,
}

#[derive(Clone, Debug, Serialize, Deserialize, PartialEq)]
pub enum AuxOp {
    KeyUpdate,
    Ping,
    SetRecvWindow(u64),
    SetSendWindow(u64),
    SetMaxStreams { bidi: bool, n: u64 },
    /// Send an application datagram of this size (clamped by the harness to what send accepts is NOT
    /// done: oversize sends exercise TooLarge)
    Datagram { size: u16, drop: bool },
    /// Send a datagram of max_size() + delta bytes (delta in -2..=2), evaluated when executed
    DatagramRel { delta: i8, drop: bool },
    Close { code: u32, reason_len: u8 },
    /// local_address_changed notification (client)
    LocalAddrChanged,
    /// `Connection::path_changed()`: restart RTT, congestion control and MTU discovery
    PathChanged,
    /// Reset the n-th (cyclically) locally initiated stream that is still being written, if there is
    /// one (C17: resets at arbitrary instants of the early phase)
    ResetOpen { nth: u8, code: u32 },
}

#[derive(Clone, Debug, Serialize, Deserialize, PartialEq)]
pub struct TimedOp {
    /// Virtual time (µs after the connection attempt started) at which to perform the op
    pub at_us: u32,
    pub op: AuxOp,
}

#[derive(Clone, Debug, Serialize, Deserialize, PartialEq, Default)]
pub struct SideLoad {
    pub streams: Vec<StreamSpec>,
    pub ops: Vec<TimedOp>,
    /// Drain received datagrams only on every n-th DatagramReceived event (0/1 = always)
    #[serde(default)]
    pub dgram_recv_every: u8,
}

pub fn arb_chunk() -> impl Strategy<Value = u32> {
    prop_oneof![
        2 => Just(1u32),
        2 => 2u32..100,
        3 => 1100u32..1500,
        2 => Just(16384u32),
        3 => Just(u32::MAX),
    ]
}

pub fn arb_reader() -> impl Strategy<Value = ReaderSpec> {
    (
        any::<bool>(),
        prop_oneof![3 => Just(None), 1 => (0u32..50_000).prop_map(Some)],
        prop_oneof![Just(1u32), Just(7), Just(1000), Just(u32::MAX)],
        prop_oneof![3 => Just(0u8), 1 => 1u8..4],
        prop_oneof![5 => Just(None), 1 => (0u32..60_000, 0u32..1000).prop_map(Some)],
    )
        .prop_map(|(ordered, switch_unordered_after, max_len, chunks_per_turn, stop)| ReaderSpec {
            ordered,
            switch_unordered_after,
            max_len,
            chunks_per_turn,
            stop,
        })
}

pub fn arb_stream(max_total: u32) -> impl Strategy<Value = StreamSpec> {
    (
        any::<bool>(),
        prop_oneof![1 => Just(0u32), 3 => 1u32..3000, 3 => 3000u32..=max_total],
        prop::collection::vec(arb_chunk(), 1..4),
        any::<bool>(),
        prop_oneof![6 => Just(EndSpec::Finish), 1 => (0u32..1000, any::<u16>()).prop_map(|(code, after)| EndSpec::Reset { code, after }), 1 => Just(EndSpec::Leave)],
        arb_reader(),
        prop_oneof![2 => Just(0u32), 1 => 1u32..20_000],
        any::<bool>(),
        -2i8..3,
    )
        .prop_map(|(bidi, total, chunks, use_write_chunks, end, reader, resp_total, resp_reader_ordered, priority)| StreamSpec {
            bidi,
            total,
            chunks,
            use_write_chunks,
            end,
            reader,
            resp_total,
            resp_reader_ordered,
            priority,
        })
}

pub fn arb_aux(span_us: u32, allow_close: bool) -> impl Strategy<Value = TimedOp> {
    let base = prop_oneof![
        3 => Just(AuxOp::KeyUpdate),
        2 => Just(AuxOp::Ping),
        2 => arb_window().prop_map(AuxOp::SetRecvWindow),
        1 => prop_oneof![Just(10_000_000u64), 1u64..100_000].prop_map(AuxOp::SetSendWindow),
        2 => (any::<bool>(), 0u64..20).prop_map(|(bidi, n)| AuxOp::SetMaxStreams { bidi, n }),
        1 => Just(AuxOp::LocalAddrChanged),
    ];
    let op = if allow_close {
        prop_oneof![
            10 => base,
            1 => (0u32..1000, 0u8..40).prop_map(|(code, reason_len)| AuxOp::Close { code, reason_len }),
        ]
        .boxed()
    } else {
        base.boxed()
    };
    (0..span_us, op).prop_map(|(at_us, op)| TimedOp { at_us, op })
}

// ---------------------------------------------------------------------------------------------
// Attacker at the link (C04/C15): acts on copies of genuine datagrams
// ---------------------------------------------------------------------------------------------

#[derive(Clone, Debug, Serialize, Deserialize, PartialEq)]
pub enum TokenChoice {
    /// the token the victim has registered for the CID it currently sends to
    ExactCurrent,
    /// a token issued by the same peer endpoint for some other CID value
    OtherCid(u16),
    /// the exact token with one bit flipped
    NearMiss(u8),
    /// a token the peer issued (NEW_CONNECTION_ID) for a connection ID the victim is not sending to
    IssuedNotInUse(u8),
}

#[derive(Clone, Debug, Serialize, Deserialize, PartialEq)]
pub enum AttackKind {
    /// deliver `times` extra copies, each `delay_us` later than the previous
    Replay { times: u8 },
    /// deliver an additional corrupted copy
    Corrupt(Corruption),
    /// deliver an additional copy whose last 16 bytes are replaced by a reset token
    ResetSuffix(TokenChoice),
    /// deliver an additional copy whose destination CID is replaced by that of another connection
    /// between the same endpoints (if there is one)
    SpliceCid,
    /// deliver an additional copy from a different source address
    FromOtherAddr { port_only: bool },
}

#[derive(Clone, Debug, Serialize, Deserialize, PartialEq)]
pub struct Attack {
    /// index (in global emission order) of the genuine datagram the attack copies
    pub on: u16,
    pub delay_us: u32,
    pub kind: AttackKind,
}

pub fn arb_attack(max_on: u16, spoof_addr: bool) -> impl Strategy<Value = Attack> {
    let base = prop_oneof![
        4 => (1u8..4).prop_map(|times| AttackKind::Replay { times }),
        4 => arb_corruption().prop_map(AttackKind::Corrupt),
        2 => prop_oneof![
            2 => Just(TokenChoice::ExactCurrent),
            1 => any::<u16>().prop_map(TokenChoice::OtherCid),
            1 => (0u8..128).prop_map(TokenChoice::NearMiss),
            2 => any::<u8>().prop_map(TokenChoice::IssuedNotInUse),
        ]
        .prop_map(AttackKind::ResetSuffix),
        1 => Just(AttackKind::SpliceCid),
    ];
    let kind = if spoof_addr {
        prop_oneof![6 => base, 2 => any::<bool>().prop_map(|port_only| AttackKind::FromOtherAddr { port_only })].boxed()
    } else {
        base.boxed()
    };
    (0..max_on, prop_oneof![Just(1u32), 1u32..50_000, 50_000u32..3_000_000], kind).prop_map(|(on, delay_us, kind)| Attack { on, delay_us, kind })
}
